"""C15 -- a failed recomputation can always be recovered from.

Specification: Trace_Edit's protocol Failed -> Recovered -> Edit* (mode "failed" / "ok") with the clauses: re-assigning the
previous value does not raise, restores exactly the model that existed before the failed edit (value by value) which also
equals a system rebuilt from scratch, and the edits that follow behave as on a rebuilt system.  TLC also re-checks the
chain model (MC_Update NoStale) since recovery is an ordinary edit on the partially recomputed state.
Driver: every update function that can raise -- available RAM, available compute, on-premise fixed count below the
need (by lowering the count or by raising the load), storage fixed count, negative cumulative storage -- on seeded real
systems with every sharing pattern, as single and as repeated failures, interleaved with successful edits.
"""
import random

from .. import efx, gen, history, simcheck, tlc, tracecheck
from ..common import work_dir, cleanup, seed_from_env, MachineryError
from . import c01, c05


def failing_edits(ns, rng, model):
    """edits expected to make recomputation raise, as (label, edit, prerequisite edits)"""
    reach = efx.reachable(model)
    servers = [s for s in efx.names_of(model, "Server") if s in reach]
    jobs = [j for j in efx.names_of(model, "Job") if j in reach]
    out = []
    for s in servers:
        out.append(("available-ram", ("input", s, "base_ram_consumption", [50000, "GB"]), []))
        out.append(("available-compute", ("input", s, "base_compute_consumption", [5000, "cpu_core"]), []))
        out.append(("on-premise-fixed-count-by-load", ("input", s, "ram", [0.001, "GB"]),
                    [("opt", s, "server_type", "on-premise"), ("opt", s, "fixed_nb", 100000)]))
        out.append(("on-premise-fixed-count-lowered", ("opt", s, "fixed_nb", 1),
                    [("opt", s, "server_type", "on-premise"), ("input", s, "ram", [0.05, "GB"])]))
        sto = model[s]["lnk"]["storage"]
        out.append(("storage-fixed-count", ("opt", sto, "fixed_nb", 1),
                    [("input", sto, "storage_capacity", [1e-9, "TB"])]))
    for j in jobs:
        out.append(("negative-cumulative-storage", ("input", j, "data_stored", [-5000, "MB"]), []))
    # the load raised by an IN-PLACE list method (the update then fails after the lists have been swapped)
    for st in [x for x in efx.names_of(model, "UsageJourneyStep") if x in reach and model[x]["lst"]["jobs"]]:
        j = model[st]["lst"]["jobs"][0]
        s = model[j]["lnk"]["server"]
        op = rng.choice(["extend", "iadd"])
        out.append(("on-premise-fixed-count-by-list-mutation", ("listop", st, "jobs", op, [[j] * 6]),
                    [("input", s, "ram", [4, "GB"]), ("opt", s, "server_type", "on-premise"), ("fix_at_current", s)]))
    rng.shuffle(out)
    return out


def run(tier, out):
    wd = work_dir("c15")
    try:
        tlc.stage_specs(wd)
        c01.run_model_check(out, wd, "quick")
        ns = efx.load()
        base = seed_from_env() * 100000
        n_hist = 14 if tier == "quick" else 250
        events, tid = [], 0
        log = efx.EventLog(ns)
        kinds = {}
        for seed in range(base, base + n_hist):
            rng = random.Random(seed)
            model = gen.random_model(rng)
            tid += 1
            try:
                h = history.LiveHistory(ns, log, tid, model)
            except Exception:
                continue
            seq = 0
            cands = failing_edits(ns, rng, h.model)
            for label, edit, prereq in cands[: (3 if tier == "quick" else 6)]:
                ok = True
                for pe in prereq:
                    if pe[0] == "fix_at_current":       # the fixed count is what the server needs right now
                        nb = h.live[pe[1]].nb_of_instances
                        if isinstance(nb, ns.EmptyExplainableObject):
                            ok = False
                            break
                        pe = ("opt", pe[1], "fixed_nb", int(round(float(nb.value["value"].values._data.max()))))
                    ev = h.do(pe)
                    if ev["ev"] == "Raised":
                        ok = False
                        break
                    seq += 1
                    events.append({"tid": tid, "seq": seq, "ev": "Edit", "seed": seed, "edit_kind": "prerequisite:" + pe[2],
                                   "stale": ev["stale"]})
                if not ok:
                    break
                names = sorted(efx.reachable(h.model))
                before = efx.snapshot(ns, h.live, names)
                before_model = h.model
                # the previous value, to be re-assigned
                if edit[0] == "input":
                    prev = ("input", edit[1], edit[2], list(h.model[edit[1]]["inp"][edit[2]]))
                elif edit[0] == "listop":
                    prev = ("list", edit[1], edit[2], list(h.model[edit[1]]["lst"][edit[2]]))
                else:
                    prev = ("opt", edit[1], edit[2], h.model[edit[1]]["opt"][edit[2]])
                n_fail = rng.choice([1, 1, 2])
                failed = False
                for k in range(n_fail):
                    ev = h.do(edit)
                    if ev["ev"] != "Raised":
                        break
                    failed = True
                    seq += 1
                    events.append({"tid": tid, "seq": seq, "ev": "Failed", "seed": seed, "label": label, "exc": ev["exc"],
                                   "allow_nested": k > 0, "phases": ev["phases"][-3:]})
                if not failed:
                    # the edit was accepted after all (the load was too small to trigger the failure): keep going
                    if ev["ev"] == "Update":
                        seq += 1
                        events.append({"tid": tid, "seq": seq, "ev": "Edit", "seed": seed, "edit_kind": "did-not-fail:" + label,
                                       "stale": ev["stale"]})
                    continue
                kinds[label] = kinds.get(label, 0) + 1
                out.nontrivial.add((seed, label))
                # recovery: re-assign the previous value
                exc = "none"
                try:
                    efx.apply_edit_live(ns, before_model, h.live, prev)
                except Exception as ex:   # noqa
                    exc = f"{type(ex).__name__}: {str(ex)[:100]}"
                h.model = before_model
                after = efx.snapshot(ns, h.live, names)
                fresh = efx.snapshot(ns, efx.build(ns, before_model), names)
                seq += 1
                events.append({"tid": tid, "seq": seq, "ev": "Recovered", "seed": seed, "label": label, "exc": exc,
                               "differs_from_before_failure": efx.diff_slots(before, after, names),
                               "stale": efx.diff_slots(after, fresh, names)})
                if exc != "none":
                    break
                # edits after the recovery behave as on a freshly built system
                for _ in range(3):
                    e = gen.random_edit(rng, h.model, ["input", "input", "starts", "link", "list", "group"])
                    ev = h.do(e)
                    if ev["ev"] == "Raised":
                        break
                    seq += 1
                    events.append({"tid": tid, "seq": seq, "ev": "Edit", "seed": seed, "edit_kind": c01.edit_shape(ev),
                                   "stale": ev["stale"], "edit": e})
                    if ev["stale"]:
                        break
                if h.events[-1]["ev"] == "Raised" or h.events[-1].get("stale"):
                    break
        log.close()
        trace = wd + "/c15.ndjson"
        tracecheck.write_trace(trace, events, keys=("tid", "seq", "ev", "exc", "allow_nested", "differs_from_before_failure",
                                                      "stale", "edit_kind"))
        fails, _n, res2 = tracecheck.validate(wd, "Trace_Edit", trace, {"JFN": "TRUE"}, timeout=3000)
        out.add_tlc(res2, "Trace_Edit on failure / recovery histories")
        out.traces += tid
        out.evaluations += len(events)
        by = {(e["tid"], e["seq"]): e for e in events}
        for t, s, clause, data in fails:
            e = by.get((t, s), {})
            prevf = [x for x in events if x["tid"] == t and x["seq"] < s and x["ev"] == "Failed"]
            label = e.get("label") or (prevf[-1]["label"] if prevf else "?")
            out.violation(f"{clause}:{label}", {"spec_says": data[:1500], "seed": e.get("seed"), "event": {k: e.get(k) for k in
                          ("ev", "label", "edit_kind", "exc", "edit")}})
        # identity level: undated updates, accepted and refused, against EFSim's Update action (all or nothing, closed graph)
        for st in ("FALSE",):
            resm = tlc.run_tlc(wd, "EFSim", c05.model_cfg(st), workers=4, timeout=900)
            tlc.require_clean(resm, "EFSim")
            out.add_tlc(resm, "EFSim protocol incl. undated updates (AllOrNothing, GraphClosed)", exhaustive=resm.completed)
            if resm.error:
                out.violation("model:" + resm.error, {"tlc_output_tail": resm.out[-4000:]})
        pevents, n_plain = [], {"updated": 0, "raised": 0}
        for k, seed in enumerate(range(base + 9000, base + 9000 + (16 if tier == "quick" else 300))):
            evs = simcheck.plain_history(ns, 5000 + k, seed)
            pevents += evs
            for e in evs:
                if e["ev"] == "PlainUpdate":
                    n_plain[e["outcome"]] += 1
                    out.nontrivial.add(("plain-update", seed, e["seq"]))
        ptrace = wd + "/c15_plain.ndjson"
        tracecheck.write_trace(ptrace, pevents, keys=c05.KEYS + ("live_toks",))
        pf, _pn, res3 = tracecheck.validate(wd, "Trace_Sim", ptrace, {"Focus": tlc.tla_str("C15")}, timeout=3000)
        out.add_tlc(res3, "Trace_Sim on undated updates (identities and graph)")
        out.evaluations += len(pevents)
        pby = {(e["tid"], e["seq"]): e for e in pevents}
        for t, s, clause, data in pf:
            e = pby.get((t, s), {})
            out.violation(f"{clause}:{e.get('flavour')}", {"spec_says": data[:1500], "seed": e.get("seed"), "flavour": e.get("flavour"),
                                                          "outcome": e.get("outcome"), "exc": e.get("exc")})
        out.extra["undated_updates_projected_at_identity_level"] = n_plain
        for e in [x for x in events if x["ev"] in ("Failed", "Recovered")][:6]:
            out.sample({k: e.get(k) for k in ("ev", "seed", "label", "exc") if k in e})
        out.extra.update({"rule": "a case = one failing edit on a seeded real system (single or repeated), its recovery and the "
                                  "edits that follow; distinct by (seed, raising update function)",
                          "failures_per_raising_function": kinds})
        out.assumptions += ["failures are provoked through the inputs listed in the module docstring; histories are sampled"]
        if len(kinds) < 4:
            raise MachineryError(f"vacuous run: only {sorted(kinds)} raising functions were exercised")
    finally:
        cleanup(wd)


def replay(path, out):
    run("quick", out)
