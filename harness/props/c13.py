"""C13 -- saving a system to JSON and loading it back loses nothing.

Specification: spec/Trace_Json.tla states what the abstract state of a saved system is (objects with class, name and id,
forward links, label and source of every input, input values with hourly inputs rounded to 3 decimals, recomputed
results) and requires: loaded = original, second export = first export, and the same edit applied to both gives the same
state again (the loaded system is live); a file of the previous major version (key 'Hardware' instead of 'Device') loads
to the same model.  The state is projected from the real objects; value classes are assigned by numeric equality.
Driver: seeded systems with every sharing pattern, repeated list elements, empty lists, fractional hourly inputs,
several time zones, builder classes (services, GPU and cloud servers), with and without calculated attributes, after
edit histories, through json.dumps / json.loads; plus the three JSON files shipped with the repository's tests.
"""
import copy
import json
import os
import random

from .. import efx, gen, tlc, tracecheck
from ..common import work_dir, cleanup, seed_from_env, REPO, MachineryError


class Classes:
    def __init__(self):
        self.reps = {}

    def of(self, key, pv, atol=1e-12):
        reps = self.reps.setdefault(key, [])
        for n, r in enumerate(reps):
            if efx.values_equal(pv, r, atol=atol):
                return n + 1
        reps.append(pv)
        return len(reps)


def rounded_hourly(pv):
    if pv[0] != "H":
        return pv
    return ("H", pv[1], pv[2], {h: round(x, 3) for h, x in pv[3].items()}, pv[4])


def state(ns, objs, cls):
    """abstract state of a system given all its objects keyed by NAME"""
    st = {"objects": {}, "links": {}, "labels": {}, "sources": {}, "inputs": {}, "results": {}, "hourly": {}}
    topo = efx.topology(ns, objs)
    for n in sorted(objs):
        o = objs[n]
        st["objects"][n] = [type(o).__name__, o.id]
        st["links"][n] = topo[n]
        for a, v in efx.explainable_attrs(ns, o).items():
            if a in efx.BOOKKEEPING:
                continue
            key = f"{n}.{a}"
            if a in o.calculated_attributes:
                if isinstance(v, dict):
                    for k, x in v.items():
                        st["results"][f"{key}[{k.name}]"] = cls.of(f"{key}[{k.name}]", efx.project_value(ns, x),
                                                                  atol=efx.TOTAL_ATOL if a == "total_footprint" else 1e-12)
                else:
                    st["results"][key] = cls.of(key, efx.project_value(ns, v),
                                                atol=efx.TOTAL_ATOL if a == "total_footprint" else 1e-12)
            else:
                st["labels"][key] = v.label or ""
                src = getattr(v, "source", None)
                st["sources"][key] = [src.name, src.link or ""] if src is not None else []
                pv = efx.project_value(ns, v)
                st["inputs"][key] = cls.of(key, rounded_hourly(pv), atol=1e-9)
                if pv[0] == "H":
                    # hourly inputs in 1e-4 units, for the rounding rule of EFJson (values finer than that are left to the
                    # value classes above)
                    raw = [pv[3][h] * 1e4 for h in sorted(pv[3])]
                    if all(abs(x - round(x)) < 1e-6 and abs(x) < 2 ** 30 for x in raw):
                        st["hourly"][key] = [int(round(x)) for x in raw]
    return st


def by_name(flat):
    out = {}
    for o in flat.values():
        if o.name in out:
            raise MachineryError(f"two objects named {o.name}")
        out[o.name] = o
    return out


def all_objects(ns, live, model):
    system = live[efx.system_name(model)]
    objs = {o.name: o for o in system.all_linked_objects}
    objs[system.name] = system
    return {n: (o._value if hasattr(o, "_value") and type(o).__name__ == "ContextualModelingObjectAttribute" else o)
            for n, o in objs.items()}


def round_trip(ns, tid, seq, live, model, with_calc, rng, flavour, cls):
    return round_trip_objs(ns, tid, seq, live[efx.system_name(model)], all_objects(ns, live, model), with_calc, flavour, cls)


def builder_system(ns):
    """one system using every builder class: video streaming, web application, generative AI on a GPU server, a Boavizta
    cloud server, next to a plain job"""
    from . import c17
    c = ns.classes
    srv = c17.plain_server(ns)
    vs = c["VideoStreaming"].from_defaults("streaming", server=srv)
    wa = c["WebApplication"].from_defaults("web app", server=srv)
    gpu = c["GPUServer"].from_defaults("gpu server", storage=c["Storage"].from_defaults("gpu storage"), compute=c17.sv(ns, 64, "gpu"))
    ga = c["GenAIModel"].from_defaults("genai", server=gpu)
    cloud = c["BoaviztaCloudServer"].from_defaults("cloud server", storage=c["Storage"].from_defaults("cloud storage"))
    jobs = [c["VideoStreamingJob"].from_defaults("video job", service=vs), c["WebApplicationJob"].from_defaults("web job", service=wa),
            c["GenAIJob"].from_defaults("genai job", service=ga), c["Job"].from_defaults("plain job", server=srv),
            c["Job"].from_defaults("cloud job", server=cloud)]
    system = c17.usage(ns, jobs)
    objs = {o.name: o for o in system.all_linked_objects}
    objs = {n: (o._value if type(o).__name__ == "ContextualModelingObjectAttribute" else o) for n, o in objs.items()}
    objs[system.name] = system
    return system, objs


def round_trip_objs(ns, tid, seq, system, objs, with_calc, flavour, cls):
    ev = {"tid": tid, "seq": seq, "ev": "RoundTrip", "flavour": flavour, "with_calc": with_calc, "load_error": "none",
          "second_export_equal": True, "export_diff": [], "edited": False}
    ev["orig"] = state(ns, objs, cls)
    try:
        js = json.loads(json.dumps(ns.system_to_json(system, save_calculated_attributes=with_calc)))
    except Exception as ex:   # noqa: a system that cannot be saved is a lost round trip, not a harness problem
        ev["load_error"] = f"export raised {type(ex).__name__}: {str(ex)[:150]}"
        ev["loaded"] = ev["orig"]
        return ev, None
    try:
        _cls_dict, flat = ns.json_to_system(copy.deepcopy(js))
    except Exception as ex:   # noqa
        ev["load_error"] = f"{type(ex).__name__}: {str(ex)[:150]}"
        ev["loaded"] = ev["orig"]
        return ev, None
    loaded = by_name(flat)
    ev["loaded"] = state(ns, loaded, cls)
    lsys = next(o for o in loaded.values() if type(o).__name__ == "System")
    try:
        js2 = json.loads(json.dumps(ns.system_to_json(lsys, save_calculated_attributes=with_calc)))
    except Exception as ex:   # noqa
        ev["second_export_equal"] = False
        ev["export_diff"] = [f"second export raised {type(ex).__name__}: {str(ex)[:150]}"]
        ev["export_diff_only_never_computed_network"] = False
        return ev, loaded
    diffs = []
    global SAVED_IDS
    SAVED_IDS = {oid for k, d in js.items() if isinstance(d, dict) for oid in d}
    json_diff(js, js2, "", diffs)
    if diffs:
        net_ids = {f"energy_footprint-in-{nid}" for nid in js.get("Network", {})}

        def benign(path, a, b):
            # a network none of whose usage patterns has a job is not computed when a system is (re)built: its
            # energy footprint is the initial empty value ("no value", no ancestors) instead of an empty value
            # carrying a label and ancestors -- see known_findings.json
            if path.startswith("/Network/") and "/energy_footprint/" in path:
                return True
            if path.endswith("/direct_children_with_id") and isinstance(a, list) and isinstance(b, list):
                return set(a) ^ set(b) <= net_ids
            return False
        ev["second_export_equal"] = False
        ev["export_diff"] = [d[0] for d in diffs][:6]
        ev["export_diff_only_never_computed_network"] = all(benign(*d) for d in diffs)
    return ev, loaded


SAVED_IDS = None


def json_diff(a, b, path, out):
    if type(a) != type(b):
        out.append((path, a, b))
    elif isinstance(a, dict):
        for k in sorted(set(a) | set(b)):
            if k not in a or k not in b:
                out.append((path + "/" + k, a.get(k), b.get(k)))
            else:
                json_diff(a[k], b[k], path + "/" + k, out)
    elif path.endswith(("/direct_children_with_id", "/direct_ancestors_with_id")) and isinstance(a, list):
        # the order in which dependents registered is not information; values of objects that are not part of the
        # system (a journey no usage pattern uses) are not saved, so references to them cannot come back
        keep = lambda ids: sorted(x for x in set(ids) if SAVED_IDS is None or x.split("-in-", 1)[-1] in SAVED_IDS)
        if keep(a) != keep(b):
            out.append((path, a, b))
    elif a != b:
        out.append((path, a, b))


def names_in(e):
    """object names an edit refers to"""
    if e[0] == "group":
        out = set()
        for x in e[1]:
            out |= names_in(x)
        return out
    out = {e[1]}
    if e[0] == "link":
        out.add(e[3])
    elif e[0] == "list":
        out |= set(e[3])
    return out


def run(tier, out):
    wd = work_dir("c13")
    try:
        tlc.stage_specs(wd)
        resm = tlc.run_tlc(wd, "MC_Json", "SPECIFICATION Spec\nINVARIANT Rounded\nINVARIANT Idempotent\nINVARIANT Exact\n",
                           workers=8, timeout=900)
        tlc.require_clean(resm, "MC_Json")
        out.add_tlc(resm, "MC_Json: save / load laws of EFJson over every small state", exhaustive=resm.completed)
        if resm.error:
            out.violation("model:" + resm.error, {"tlc_output_tail": resm.out[-3000:]})
        ns = efx.load()
        base = seed_from_env() * 100000
        n = 24 if tier == "quick" else 400
        events, tid = [], 0
        flavours = {}
        for seed in range(base, base + n):
            rng = random.Random(seed)
            model = gen.random_model(rng)
            if seed % 2:
                for up in efx.names_of(model, "UsagePattern"):
                    model[up]["opt"]["starts"] = [round(x * 0.487, 3) for x in model[up]["opt"]["starts"]]
            if seed % 3 == 0:
                # a usage pattern whose local series starts on the half hour, in a half-hour zone (local 05:30 in Kolkata is midnight UTC)
                up0 = efx.names_of(model, "UsagePattern")[0]
                model[model[up0]["lnk"]["country"]]["opt"]["tz"] = "Asia/Kolkata"
                model[up0]["opt"]["start"] = model[up0]["opt"]["start"][:14] + "30:00"
            try:
                live = efx.build(ns, model)
            except Exception:
                continue
            if seed % 2 == 0:
                # several inputs cite the same document at different places: same source name, different links
                picks = [(n, a) for n in sorted(efx.reachable(model)) for a in model[n]["inp"]
                         if model[n]["inp"][a][0] != 0 and a not in ("server_utilization_rate", "fraction_of_usage_time")]
                rng.shuffle(picks)
                for k, (n, a) in enumerate(picks[:4]):
                    mv = [model[n]["inp"][a][0] * 1.25, model[n]["inp"][a][1]]      # an assignment of an equal value is skipped
                    try:
                        setattr(live[n], a, ns.SourceValue(mv[0] * ns.u(mv[1]), ns.Source(
                            "Shared report", f"https://example.org/report#section-{k % 3}"), f"{a} of {n}"))
                    except Exception:   # noqa: the new value does not suit this system
                        continue
                    model[n]["inp"][a] = mv
            cur = model
            if seed % 3 == 0:       # after an edit history
                for _ in range(4):
                    e = gen.random_edit(rng, cur, ["input", "starts", "link", "list", "listop", "group"])
                    try:
                        efx.apply_edit_live(ns, cur, live, e)
                    except Exception:
                        break
                    cur = efx.apply_edit_abstract(cur, e)
            tid += 1
            cls = Classes()
            with_calc = bool(seed % 2)
            flavour = ("after-edits" if seed % 3 == 0 else "fresh") + ("/with-calculated" if with_calc else "/inputs-only")
            ev, loaded = round_trip(ns, tid, 0, live, cur, with_calc, rng, flavour, cls)
            ev["seed"] = seed
            flavours[flavour] = flavours.get(flavour, 0) + 1
            out.nontrivial.add((seed, flavour))
            if loaded is not None:
                # the same edit on the original and on the loaded system
                for _ in range(6):
                    e = gen.random_edit(rng, cur, ["input", "starts", "link", "list", "group"])
                    if not names_in(e) <= set(loaded):
                        continue          # only objects reachable from the system are saved
                    try:
                        efx.apply_edit_live(ns, cur, live, e)
                    except Exception:
                        break
                    lmap = {nm: loaded[nm] for nm in loaded}
                    lmap[efx.system_name(cur)] = next(o for o in loaded.values() if type(o).__name__ == "System")
                    try:
                        efx.apply_edit_live(ns, cur, lmap, e)
                    except Exception as ex:   # noqa
                        ev["load_error"] = f"edit on the loaded system raised {type(ex).__name__}: {str(ex)[:100]}"
                        break
                    cur = efx.apply_edit_abstract(cur, e)
                    ev["edited"] = True
                    ev["edit"] = e
                    ev["orig_after_edit"] = state(ns, all_objects(ns, live, cur), cls)
                    ev["loaded_after_edit"] = state(ns, all_objects(ns, lmap, cur), cls)
                    break
            events.append(ev)
        # builder classes (services, GPU server, cloud server), built here rather than read from a file
        for with_calc in (False, True):
            tid += 1
            flavour = "builders" + ("/with-calculated" if with_calc else "/inputs-only")
            try:
                system, objs = builder_system(ns)
            except Exception as ex:   # noqa
                raise MachineryError(f"the builder scenario cannot be built: {ex!r}")
            ev, _loaded = round_trip_objs(ns, tid, 0, system, objs, with_calc, flavour, Classes())
            ev["seed"] = -1
            flavours[flavour] = flavours.get(flavour, 0) + 1
            out.nontrivial.add((flavour,))
            events.append(ev)
        # files shipped with the repository, and the same file written as the previous major version
        jdir = os.path.join(REPO, "tests", "integration_tests")
        for fn in sorted(f for f in os.listdir(jdir) if f.endswith(".json")):
            with open(os.path.join(jdir, fn)) as f:
                js = json.load(f)
            tid += 1
            cls = Classes()
            ev = {"tid": tid, "seq": 0, "ev": "Legacy", "file": fn, "load_error": "none"}
            try:
                _c, flat = ns.json_to_system(copy.deepcopy(js))
                ev["orig"] = state(ns, by_name(flat), cls)
                old = copy.deepcopy(js)
                old["efootprint_version"] = "9.1.4"
                if "Device" in old:
                    old["Hardware"] = old.pop("Device")
                _c2, flat2 = ns.json_to_system(old)
                ev["loaded"] = state(ns, by_name(flat2), cls)
            except Exception as ex:   # noqa
                ev["load_error"] = f"{type(ex).__name__}: {str(ex)[:150]}"
                ev.setdefault("orig", {"objects": {}, "links": {}, "labels": {}, "sources": {}, "inputs": {}, "results": {}, "hourly": {}})
                ev["loaded"] = ev["orig"]
            events.append(ev)
            out.nontrivial.add(("file", fn))
        trace = wd + "/c13.ndjson"
        tracecheck.write_trace(trace, events, keys=("tid", "seq", "ev", "flavour", "load_error", "orig", "loaded",
                                                      "second_export_equal", "export_diff", "edited", "orig_after_edit",
                                                      "loaded_after_edit"))
        fails, _n, res2 = tracecheck.validate(wd, "Trace_Json", trace, {}, timeout=3000)
        out.add_tlc(res2, "Trace_Json on recorded round trips")
        out.traces += len(events)
        out.evaluations += len(events)
        by = {e["tid"]: e for e in events}
        for t, s, clause, data in fails:
            e = by.get(t, {})
            sig = clause.split(":")[0] + ":" + clause.split(":")[-1] if ":" in clause else clause
            if clause == "second-export-differs" and e.get("export_diff_only_never_computed_network"):
                sig = "second-export-differs(network-without-job-not-computed-at-load)"
            out.violation(sig,
                          {"clause": clause, "spec_says": data[:1200], "seed": e.get("seed"), "flavour": e.get("flavour"),
                           "file": e.get("file"), "edit": e.get("edit")})
        for e in events[:3]:
            out.sample({"seed": e.get("seed"), "flavour": e.get("flavour"), "objects": list(e["orig"]["objects"].items())[:4],
                        "edited": e.get("edited")})
        out.extra.update({"rule": "a case = one save / load round trip of a seeded real system (or of a shipped JSON file); "
                                  "distinct by (seed, flavour) or file", "round_trips_per_flavour": flavours,
                          "with_edit_after_load": sum(1 for e in events if e.get("edited"))})
        out.assumptions += ["in exported graphs the lists of ancestor / child identifiers are compared as sets",
                            "objects are matched by name (the drivers give unique names); ids are compared as part of the state",
                            "builder classes are covered by one scenario using each of them once (default parameters) and by the shipped system_with_services.json"]
    finally:
        cleanup(wd)


def replay(path, out):
    run("quick", out)
