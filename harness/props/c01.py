"""C01 -- incremental recomputation equals recomputation from scratch.

1. TLC, exhaustive: MC_Update over every well-formed topology of a small universe and every single
   (thorough: also every two-change grouped) edit -- NoStale on the modelled chain algorithm.
2. code -> spec: seeded random edit histories on real systems (all sharing patterns); after every
   accepted edit the live system is compared hour by hour with a system rebuilt from scratch, and
   the recorded event (topologies, change list, the chains the implementation really used) is
   validated by TLC against EFCore (Trace_Update): re-running the *observed* chain on the model must
   leave nothing stale, the before/after totals bookkeeping must be right.
"""
import itertools
import json
import os
import random

from .. import efx, gen, history, tlc, tracecheck
from ..common import work_dir, cleanup, MachineryError, seed_from_env

MC_CONSTANTS = """  UPs = {u1, u2}
  UJs = {a1, a2}
  StepIds = {s1, s2}
  JobIds = {j1, j2}
  ServerIds = {v1, v2}
  StorageIds = {t1, t2}
  NetIds = {n1, n2}
  CountryIds = {c1}
  DeviceIds = {d1}
"""

# how the current tree behaves (see known_findings.json / DESIGN.md section 6)
MODEL_FLAGS = {"JFN": "TRUE", "CANON": "TRUE"}


def mc_cfg(max_list, groups, invariant="NoStale", flags=None):
    f = dict(MODEL_FLAGS)
    f.update(flags or {})
    return ("SPECIFICATION Spec\nCONSTANTS\n" + MC_CONSTANTS +
            f"  MaxList = {max_list}\n  JFN = {f['JFN']}\n  CANON = {f['CANON']}\n"
            f"  Groups = {'TRUE' if groups else 'FALSE'}\n  CheckUpdates = {f.get('CheckUpdates', 'TRUE')}\n"
            f"  CheckGraph = {f.get('CheckGraph', 'FALSE')}\n"
            f"SYMMETRY Symm\nINVARIANT {invariant}\n")


def run_model_check(out, wd, tier, graph=False):
    """NoStale (and, with graph=True, GraphFresh: after every update the recorded graph lists no superseded value object)"""
    cfg = mc_cfg(1 if tier == "quick" else 2, False, flags={"CheckGraph": "TRUE" if graph else "FALSE"})
    if graph:
        cfg += "INVARIANT GraphFresh\n"
    res = tlc.run_tlc(wd, "MC_Update", cfg, workers=16, timeout=900 if tier == "quick" else 3600)
    tlc.require_clean(res, "MC_Update")
    out.add_tlc(res, "MC_Update: every topology x every single edit, MaxList=%d, invariants NoStale%s"
                % (1 if tier == "quick" else 2, " + GraphFresh" if graph else ""), exhaustive=res.completed)
    if res.error:
        out.violation("model:" + ("GraphFresh" if "GraphFresh" in res.out else "NoStale"),
                      {"what": "the modelled chain algorithm leaves a slot stale, or a value listing a superseded ancestor",
                       "tlc_output_tail": res.out[-6000:]})
    return res


def record_histories(ns, seeds, n_edits, out, kinds=None):
    events, shapes, actions = [], set(), {}
    raised = []
    for status, seed, h, err in history.run_histories(ns, seeds, n_edits, kinds=kinds):
        if status != "ok":
            raised.append({"seed": seed, "phase": "build", "exc": repr(err)[:200]})
            continue
        shapes |= gen.shape_tags(h.model)
        for ev in h.events:
            if ev["ev"] == "Update":
                k = ev["edit"][0] + (":" + ev["edit"][3] if ev["edit"][0] == "listop" else "")
                actions[k] = actions.get(k, 0) + 1
                out.nontrivial.add((seed, ev["seq"]))
            elif ev["ev"] == "Refused":
                actions["refused"] = actions.get("refused", 0) + 1
                out.nontrivial.add((seed, ev["seq"]))
            elif ev["ev"] == "Raised":
                raised.append({"seed": seed, "seq": ev["seq"], "edit": ev["edit"], "exc": ev["exc"], "msg": ev["msg"]})
        events += [dict(ev, seed=seed) for ev in h.events if ev["ev"] in ("Create", "Update", "Refused")]
    return events, shapes, actions, raised


# ---------------------------------------------------------------------------
# spec -> code: the topologies TLC explores, built as real systems, and every edit the model distinguishes executed on them

def emitted_topologies(wd, max_list=1):
    """the initial states of MC_Update (one per symmetry class), printed by TLC (MC_Update_Emit)"""
    cfg = mc_cfg(max_list, False, invariant="FreshAfterCreation", flags={"CheckUpdates": "FALSE"})
    cfg = cfg.replace("SPECIFICATION Spec", "SPECIFICATION EmitSpec")
    res = tlc.run_tlc(wd, "MC_Update_Emit", cfg, workers=1, timeout=1800)
    tlc.require_clean(res, "MC_Update_Emit")
    topos = []
    for ln in res.out.splitlines():
        ln = ln.strip()
        if ln.startswith('"TOPO|'):
            topos.append(json.loads(json.loads(ln)[5:]))
    if not topos:
        raise MachineryError("MC_Update_Emit printed no topology")
    return topos, res


def model_of_topology(T):
    m = {}
    for v, sto in T["storage"].items():
        m[sto] = efx.new_obj("Storage")
        m[v] = efx.new_obj("Server", storage=sto)
    for j, v in T["server"].items():
        m[j] = efx.new_obj("Job", server=v)
    for s, jobs in T["jobsOf"].items():
        m[s] = efx.new_obj("UsageJourneyStep", jobs=list(jobs))
    for uj, steps in T["stepsOf"].items():
        m[uj] = efx.new_obj("UsageJourney", uj_steps=list(steps))
    for n in sorted(set(T["net"].values()) | {"n1", "n2"}):
        m[n] = efx.new_obj("Network")
    for c in sorted(set(T["country"].values())):
        m[c] = efx.new_obj("Country")
    for d in sorted({x for l in T["devs"].values() for x in l}):
        m[d] = efx.new_obj("Device")
    for k, up in enumerate(sorted(T["uj"])):
        m[up] = efx.new_obj("UsagePattern", usage_journey=T["uj"][up], network=T["net"][up], country=T["country"][up],
                            devices=list(T["devs"][up]), starts=[2, 1, 3, 4][: 3 + k],
                            start="2025-01-01T0%d:00:00" % (3 * k))
    m["sys"] = efx.new_obj("System", usage_patterns=list(T["sysups"]))
    # non-default values where the defaults (no initial storage need, small base consumptions) would hide an in-place addition
    for n in efx.names_of(m, "Storage"):
        m[n]["inp"]["base_storage_need"] = [2, "TB"]
    for n in efx.names_of(m, "Server"):
        m[n]["inp"]["base_ram_consumption"] = [4, "GB"]
    return m


COVERED_INPUTS = set()       # (class, attribute) pairs already edited in this run: the sample favours the others


def edits_of_topology(model, rng, n_inputs, max_list=1):
    """every link change and every list change of the model's universe (StructChanges of MC_Update) + n_inputs input changes
    (all of them when n_inputs is None)"""
    by = lambda c: sorted(efx.names_of(model, c))
    edits = []
    for up in by("UsagePattern"):
        for attr, cls in (("usage_journey", "UsageJourney"), ("network", "Network"), ("country", "Country")):
            edits += [("link", up, attr, x) for x in by(cls) if x != model[up]["lnk"][attr]]
    for j in by("Job"):
        edits += [("link", j, "server", x) for x in by("Server") if x != model[j]["lnk"]["server"]]

    def seqs(pool):
        out = [[]]
        for k in range(1, max_list + 1):
            out += [list(p) for p in itertools.product(pool, repeat=k)]
        return out
    for uj in by("UsageJourney"):
        edits += [("list", uj, "uj_steps", s) for s in seqs(by("UsageJourneyStep")) if s != model[uj]["lst"]["uj_steps"]]
    for s in by("UsageJourneyStep"):
        edits += [("list", s, "jobs", x) for x in seqs(by("Job")) if x != model[s]["lst"]["jobs"]]
    inputs = []
    reach = efx.reachable(model)
    for n in sorted(model):
        if n not in reach and n_inputs is not None:
            continue        # (sampled tier) an input of an object the system does not reach changes nothing
        for a, mv in model[n]["inp"].items():
            inputs.append(("input", n, a, [mv[0] * 2 + (1 if mv[0] == 0 else 0), mv[1]]))
    for up in by("UsagePattern"):
        inputs.append(("opt", up, "starts", [[x + 1 for x in model[up]["opt"]["starts"]], model[up]["opt"]["start"]]))
    for c in by("Country"):
        inputs.append(("opt", c, "tz", "Asia/Kolkata"))
    for v in by("Server"):
        inputs.append(("opt", v, "server_type", "serverless"))
    if n_inputs is not None:
        rng.shuffle(inputs)
        key = lambda e: (model[e[1]]["cls"], e[2])
        fresh, seen = [], set()
        for e in inputs:
            if key(e) not in COVERED_INPUTS and key(e) not in seen:
                fresh.append(e)
                seen.add(key(e))
        inputs = (fresh + [e for e in inputs if e not in fresh])[:n_inputs]
        COVERED_INPUTS.update(key(e) for e in inputs)
    return edits + inputs


def replay_model_domain(ns, wd, out, tier, tid0):
    rng = random.Random(seed_from_env() + 4242)
    topos, res = emitted_topologies(wd)
    out.add_tlc(res, "MC_Update_Emit: the model's initial topologies, printed for replay on real systems")
    if tier == "thorough":
        chosen = topos
    else:
        # half of the sample among the topologies in which a job, hence a server and a storage, is reached
        with_jobs = [T for T in topos if any(T["jobsOf"][s] for uj in set(T["uj"].values()) for s in T["stepsOf"][uj])]
        chosen = rng.sample(with_jobs, min(3, len(with_jobs)))
        chosen += rng.sample([T for T in topos if T not in chosen], 6 - len(chosen))
    events, tid = [], tid0
    log = efx.EventLog(ns)
    n_edits = 0
    for T in chosen:
        model = model_of_topology(T)
        for edit in edits_of_topology(model, rng, 10 if tier == "thorough" else 8):
            tid += 1
            try:
                h = history.LiveHistory(ns, log, tid, model)
            except Exception as ex:   # noqa
                raise MachineryError(f"a topology of the model cannot be built: {ex!r}")
            ev = h.do(edit, via_update=bool(n_edits % 2))
            n_edits += 1
            for e in h.events:
                if e["ev"] in ("Create", "Update"):
                    events.append(dict(e, seed=-1))
            if ev["ev"] == "Update":
                out.nontrivial.add(("domain", json.dumps(T, sort_keys=True), json.dumps(edit)))
    log.close()
    return events, tid, len(chosen), len(topos), n_edits


def judge(out, events, fails):
    by_key = {(e["tid"], e["seq"]): e for e in events}
    for tid, seq, clause, data in fails:
        ev = by_key.get((tid, seq), {})
        sig = f"trace:{clause}:{edit_shape(ev)}"
        out.violation(sig, {"clause": clause, "spec_says": data, "seed": ev.get("seed"), "seq": seq,
                            "edit": ev.get("edit"), "T": ev.get("T"), "stale_vs_rebuild": ev.get("stale"),
                            "attr_chain": ev.get("attr_chain"), "how_to_replay":
                            f"./check C01 --replay <this file> (re-runs seed {ev.get('seed')} up to edit {seq})"})


def edit_shape(ev):
    e = ev.get("edit")
    if not e:
        return "?"
    if e[0] == "group":
        kinds = sorted({x[0] for x in e[1]})
        return "group(" + "+".join(kinds) + ")"
    if e[0] == "listop":
        return f"listop:{e[2]}"
    if e[0] in ("input", "opt", "link", "list"):
        return f"{e[0]}:{e[2]}"
    return e[0]


def run(tier, out):
    wd = work_dir("c01")
    try:
        tlc.stage_specs(wd)
        run_model_check(out, wd, tier)
        ns = efx.load()
        base = seed_from_env() * 100000
        n_hist, n_edits = (20, 12) if tier == "quick" else (200, 20)
        events, shapes, actions, raised = record_histories(ns, range(base, base + n_hist), n_edits, out)
        dom_events, _tid, n_topo, n_all, n_dom = replay_model_domain(ns, wd, out, tier, 10 ** 6)
        events += dom_events
        trace = os.path.join(wd, "c01.ndjson")
        tracecheck.write_trace(trace, events)
        fails, notes, res = tracecheck.validate(wd, "Trace_Update", trace,
                                                {"JFN": MODEL_FLAGS["JFN"], "CANON": MODEL_FLAGS["CANON"]})
        out.add_tlc(res, "Trace_Update on recorded histories")
        out.traces += sum(1 for e in events if e["ev"] == "Create")
        out.evaluations += sum(1 for e in events if e["ev"] in ("Update", "Refused"))
        judge(out, events, fails)
        for ev in events:
            if ev["ev"] == "Update" and not ev.get("links_ok", True):
                out.violation(f"links-differ-from-abstract-model:{edit_shape(ev)}", {"edit": ev["edit"], "seed": ev["seed"]})
        note_kinds = {}
        by_key = {(e["tid"], e["seq"]): e for e in events}
        dbg = open(os.path.join(os.path.dirname(wd), "c01-notes.txt"), "w") if os.environ.get("VERIF_DEBUG") else None
        for t, s_, clause, d in notes:
            if by_key.get((t, s_), {}).get("composite") and clause != "changed-outside-spec-reads":
                continue      # adding / deleting a usage pattern is two operations of the code, one event here
            note_kinds[clause] = note_kinds.get(clause, 0) + 1
            if dbg:
                e = by_key.get((t, s_), {})
                dbg.write(f"{clause} seed={e.get('seed')} seq={s_} edit={e.get('edit')}\n   {d}\n")
        if dbg:
            dbg.close()
        out.extra.update({
            "rule": "a case = one accepted edit of a live random system (<=3 objects per class, all sharing "
                    "patterns), compared with a rebuild and validated by TLC; distinct = (seed, position)",
            "histories": n_hist, "edits_validated": out.evaluations, "sharing_shapes_seen": sorted(shapes),
            "model_topologies_replayed_on_real_systems": f"{n_topo} of {n_all}", "edits_executed_on_them": n_dom,
            "edit_kinds_seen": actions, "edits_that_raised": raised[:20], "n_edits_that_raised": len(raised),
            "spec_code_divergence_notes": note_kinds})
        for ev in events[:40]:
            if ev["ev"] == "Update":
                out.sample({"seed": ev["seed"], "edit": ev["edit"], "obj_chain": ev["obj_chain"],
                            "n_attr_chain": len(ev["attr_chain"]), "n_changed": len(ev["changed"]),
                            "stale": ev["stale"]}, limit=4)
        out.assumptions += [
            "Reads/Def tables of spec/EFCore.tla are hand-transcribed from the update functions; they are bound to "
            "the code by the 'changed-outside-spec-reads' clause (reported as a divergence note)",
            "floats are compared with rtol 1e-9 (System.total_footprint, rounded to 4 decimals by the code, "
            "with atol 2.1e-4)",
            "exhaustive TLC result holds for the stated universe (2 objects per class, lists <= MaxList)"]
        if not shapes & {"journey-shared-by-patterns", "job-in-several-journeys"}:
            raise MachineryError("vacuous run: no history exercised a shared journey or job")
    finally:
        cleanup(wd)


def replay(path, out):
    with open(path) as f:
        detail = json.load(f)["detail"]
    ns = efx.load()
    seed, seq = detail["seed"], detail["seq"]
    events, *_ = record_histories(ns, [seed], seq, out)
    last = [e for e in events if e["ev"] in ("Update", "Refused")][-1]
    print(json.dumps({"edit": last["edit"], "accepted": last["ev"] == "Update", "stale_vs_rebuild": last["stale"]}, indent=1))
    if last["stale"] or (last["ev"] == "Refused" and last["changed"]):
        out.violation("replay:stale-vs-rebuild", {"seed": seed, "seq": seq, "stale": last["stale"],
                                                  "changed_by_refused_edit": last["changed"] if last["ev"] == "Refused" else []})
    out.evaluations = len(events)
    out.nontrivial |= {(seed, i) for i in range(len(events))}
