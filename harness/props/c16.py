"""C16 -- links between objects stay consistent under every kind of edit.

1. TLC, exhaustive: spec/EFLinks.tla (implementation-level model of list objects and wrappers)
   refines the Python list model: ContentLikePython, LiveListAttached, ReverseAgreesWithForward,
   NoSpuriousError for every mutator with present / absent / duplicate / no-op arguments.
2. spec -> code: every (initial list, operation) pair of the model's small domain is executed on a real
   journey's live `uj_steps` list.
3. code -> spec: seeded random histories of list operations (on system.usage_patterns, usage_pattern.devices,
   journey.uj_steps, step.jobs), link and list assignments, self_delete attempts and cross-system links on
   real systems; after each one the forward links and every reverse look-up are read back.
All recorded events are validated by TLC against Trace_Links (Python list semantics from EFPyList,
reverse look-ups from EFCore).
"""
import json
import os
import random
import signal

from .. import efx, gen, tlc, tracecheck
from ..common import work_dir, cleanup, seed_from_env, MachineryError

LIST_ATTRS = {"UsageJourney": "uj_steps", "UsageJourneyStep": "jobs", "UsagePattern": "devices",
              "System": "usage_patterns"}
POOL_CLASS = {"uj_steps": "UsageJourneyStep", "jobs": "Job", "devices": "Device", "usage_patterns": "UsagePattern"}


def links_cfg(elems, maxlen):
    return ("SPECIFICATION Spec\nCONSTANTS\n  Elems = {%s}\n  MaxLen = %d\n  FixNoOp = TRUE\n  FixRemove = TRUE\n"
            "  FixImul = TRUE\n  FixRefused = TRUE\nCONSTRAINT Bound\nVIEW View\nINVARIANT ContentLikePython\nINVARIANT LiveListAttached\n"
            "INVARIANT ReverseAgreesWithForward\nINVARIANT NoSpuriousError\n" % (", ".join(elems), maxlen))


def live_topo(ns, live):
    t = {k: [] for k in efx.CLS_KEY.values()}
    t.update({"uj": {}, "net": {}, "country": {}, "devs": {}, "stepsOf": {}, "jobsOf": {}, "server": {},
              "storage": {}, "sysups": []})
    for n, o in live.items():
        c = type(o).__name__
        if c == "System":
            if n == "sys":
                t["sysups"] = [x.name for x in o.usage_patterns]
            continue
        if n.endswith("_B"):
            continue          # objects of the second system used for cross-system attempts
        t[efx.CLS_KEY[c]].append(n)
        if c == "UsagePattern":
            t["uj"][n] = o.usage_journey.name
            t["net"][n] = o.network.name
            t["country"][n] = o.country.name
            t["devs"][n] = [x.name for x in o.devices]
        elif c == "UsageJourney":
            t["stepsOf"][n] = [x.name for x in o.uj_steps]
        elif c == "UsageJourneyStep":
            t["jobsOf"][n] = [x.name for x in o.jobs]
        elif c == "Job":
            t["server"][n] = o.server.name
        elif c == "Server":
            t["storage"][n] = o.storage.name
    return t


def names(objs):
    return sorted(o.name for o in objs)


def reverse_lookups(ns, live):
    r = {k: {} for k in ("server_jobs", "storage_servers", "uj_ups", "net_ups", "country_ups", "device_ups",
                         "step_ujs", "job_steps", "job_ups", "systems")}
    for n, o in live.items():
        c = type(o).__name__
        if c == "System" or n.endswith("_B"):
            continue
        r["systems"][n] = names(o.systems)
        if c == "Server":
            r["server_jobs"][n] = names(o.jobs)
        elif c == "Storage":
            r["storage_servers"][n] = names(o.modeling_obj_containers)
        elif c == "UsageJourney":
            r["uj_ups"][n] = names(o.usage_patterns)
        elif c == "Network":
            r["net_ups"][n] = names(o.usage_patterns)
        elif c == "Country":
            r["country_ups"][n] = names(o.usage_patterns)
        elif c == "Device":
            r["device_ups"][n] = names(o.modeling_obj_containers)
        elif c == "UsageJourneyStep":
            r["step_ujs"][n] = names(o.usage_journeys)
        elif c == "Job":
            r["job_steps"][n] = names(o.usage_journey_steps)
            r["job_ups"][n] = names(o.usage_patterns)
    return r


def detached(ns, live):
    bad = []
    for n, o in live.items():
        if n.endswith("_B"):
            continue
        for k, v in o.__dict__.items():
            if isinstance(v, ns.ListLinkedToModelingObj):
                if v.modeling_obj_container is not o or v.attr_name_in_mod_obj_container != k:
                    bad.append([n, k, "list"])
                for idx, w in enumerate(list.__iter__(v)):
                    if object.__getattribute__(w, "modeling_obj_container") is not o:
                        bad.append([n, k, f"wrapper {idx}"])
            elif isinstance(v, ns.ContextualModelingObjectAttribute):
                if object.__getattribute__(v, "modeling_obj_container") is not o:
                    bad.append([n, k, "link wrapper"])
    return bad


def op_record(op, args):
    rec = {"name": op, "x": "", "i": 0, "l": [], "n": 0}
    if op in ("extend_gen", "iadd_gen"):
        rec["name"] = op.split("_")[0]          # the same Python operation, written with a generator
        rec["l"] = list(args[0])
    elif op == "iadd_self":
        rec["name"] = "iadd"                    # lst += lst: the argument is the list's own content (args[0], read before)
        rec["l"] = list(args[0])
    elif op in ("append", "remove"):
        rec["x"] = args[0]
    elif op == "insert":
        rec["i"], rec["x"] = args
    elif op in ("extend", "iadd"):
        rec["l"] = list(args[0])
    elif op == "imul":
        rec["n"] = args[0]
    elif op == "pop":
        if args:
            rec["i"] = args[0]
        else:
            rec["name"] = "poplast"
    elif op == "delitem":
        rec["i"] = args[0]
    elif op == "setitem":
        rec["i"], rec["x"] = args
    return rec


class LinkHistory:
    def __init__(self, ns, tid, model):
        self.ns, self.tid, self.seq = ns, tid, 0
        self.live = efx.build(ns, model)
        self.events = []
        self.emit("Create", {})

    def emit(self, ev, extra, exc="none"):
        ns = self.ns
        bad = detached(ns, self.live)
        rec = {"tid": self.tid, "seq": self.seq, "ev": ev, "exc": exc, "T2": live_topo(ns, self.live),
               "rev": reverse_lookups(ns, self.live), "attached_ok": not bad, "detached": bad[:5]}
        rec.update(extra)
        self.events.append(rec)
        self.seq += 1
        return rec

    def attempt(self, fn):
        def _alarm(*_a):
            raise TimeoutError("the operation did not terminate within 20 s")
        old = signal.signal(signal.SIGALRM, _alarm)
        signal.alarm(20)
        try:
            fn()
            return "none"
        except Exception as ex:   # noqa: the exception class is part of the recorded outcome
            return type(ex).__name__
        finally:
            signal.alarm(0)
            signal.signal(signal.SIGALRM, old)

    def list_op(self, obj, attr, op, args):
        exc = self.attempt(lambda: efx.apply_edit_live(self.ns, None, self.live, ("listop", obj, attr, op, args)))
        return self.emit("ListOp", {"obj": obj, "attr": attr, "op": op_record(op, args)}, exc)

    def set_list(self, obj, attr, new):
        exc = self.attempt(lambda: setattr(self.live[obj], attr, [self.live[x] for x in new]))
        return self.emit("SetList", {"obj": obj, "attr": attr, "new": list(new)}, exc)

    def set_link(self, obj, attr, new):
        exc = self.attempt(lambda: setattr(self.live[obj], attr, self.live[new]))
        return self.emit("SetLink", {"obj": obj, "attr": attr, "new": new}, exc)

    def group_set(self, changes):
        """changes: [("link", obj, attr, new name) | ("list", obj, attr, [names])] applied by ONE ModelingUpdate"""
        def go():
            pairs = []
            for kind, obj, attr, new in changes:
                old = getattr(self.live[obj], attr)
                pairs.append([old, self.live[new] if kind == "link" else [self.live[x] for x in new]])
            self.ns.ModelingUpdate(pairs)
        exc = self.attempt(go)
        return self.emit("GroupSet", {"changes": [{"kind": k, "obj": o, "attr": a, "news": n if k == "link" else "",
                                                   "newl": list(n) if k == "list" else []} for k, o, a, n in changes]}, exc)

    def self_delete(self, obj):
        exc = self.attempt(lambda: self.live[obj].self_delete())
        if exc == "none":
            del self.live[obj]
        return self.emit("SelfDelete", {"obj": obj}, exc)

    def cross_link(self, what, fn):
        exc = self.attempt(fn)
        two = sorted(n for n, o in self.live.items() if type(o).__name__ != "System" and len(o.systems) > 1)
        return self.emit("CrossLink", {"what": what, "two_systems": two}, exc)


def small_model(steps):
    m = {}
    m["sto1"] = efx.new_obj("Storage")
    m["sv1"] = efx.new_obj("Server", storage="sto1")
    for k in (1, 2, 3):
        m[f"j{k}"] = efx.new_obj("Job", server="sv1")
        m[f"s{k}"] = efx.new_obj("UsageJourneyStep", jobs=[f"j{k}"])
    m["uj1"] = efx.new_obj("UsageJourney", uj_steps=list(steps))
    m["d1"] = efx.new_obj("Device")
    m["n1"] = efx.new_obj("Network")
    m["c1"] = efx.new_obj("Country")
    m["up1"] = efx.new_obj("UsagePattern", usage_journey="uj1", network="n1", country="c1", devices=["d1"])
    m["sys"] = efx.new_obj("System", usage_patterns=["up1"])
    return m


def domain_ops(elems):
    ops = []
    for e in elems:
        ops += [("append", [e]), ("remove", [e])]
        ops += [("insert", [k, e]) for k in (0, 1, 2)]
        ops += [("setitem", [k, e]) for k in (0, 1, 2)]
    lists = [[]] + [[e] for e in elems] + [[e, f] for e in elems for f in elems]
    for l in lists:
        ops += [("extend", [l]), ("iadd", [l])]
    ops += [("imul", [k]) for k in (0, 1, 2, 3)]
    ops += [("pop", [k]) for k in (0, 1, 2)] + [("pop", [])]
    ops += [("delitem", [k]) for k in (0, 1, 2)] + [("clear", [])]
    return ops, lists


def replay_model_domain(ns, out, tid0, tier):
    """spec -> code: each (initial list, op) of the model's domain on a real live list, then one more op"""
    elems = ["s1", "s2"]
    ops, lists = domain_ops(elems)
    events, tid = [], tid0
    rng = random.Random(seed_from_env())
    for init in lists:
        for op, args in ops:
            if tier == "quick" and rng.random() < 0.5:
                continue
            tid += 1
            h = LinkHistory(ns, tid, small_model(init))
            h.list_op("uj1", "uj_steps", op, args)
            op2, args2 = rng.choice(ops)
            h.list_op("uj1", "uj_steps", op2, args2)      # the list must still be usable afterwards
            events += h.events
            out.nontrivial.add(("domain", json.dumps(init), op, json.dumps(args)))
    return events, tid


def second_system(ns, live):
    m = {}
    m["sto_B"] = efx.new_obj("Storage")
    m["sv_B"] = efx.new_obj("Server", storage="sto_B")
    m["j_B"] = efx.new_obj("Job", server="sv_B")
    m["s_B"] = efx.new_obj("UsageJourneyStep", jobs=["j_B"])
    m["uj_B"] = efx.new_obj("UsageJourney", uj_steps=["s_B"])
    m["d_B"] = efx.new_obj("Device")
    m["n_B"] = efx.new_obj("Network")
    m["c_B"] = efx.new_obj("Country")
    m["up_B"] = efx.new_obj("UsagePattern", usage_journey="uj_B", network="n_B", country="c_B", devices=["d_B"])
    m["sys_B"] = efx.new_obj("System", usage_patterns=["up_B"])
    other = efx.build(ns, m)
    live.update(other)


def random_histories(ns, out, tid0, seeds, n_ops):
    events, tid = [], tid0
    kinds_seen = {}
    for seed in seeds:
        rng = random.Random(seed)
        model = gen.random_model(rng)
        tid += 1
        try:
            h = LinkHistory(ns, tid, model)
        except Exception:
            continue
        for _ in range(n_ops):
            live = h.live
            by_cls = {}
            for n, o in live.items():
                if not n.endswith("_B"):
                    by_cls.setdefault(type(o).__name__, []).append(n)
            kind = rng.choice(["listop"] * 6 + ["setlist", "setlink", "setlink", "group", "group", "delete", "delete_unref"])
            if kind == "group":
                # several objects re-pointed to the SAME target by one update, possibly with a list change
                choice = rng.choice(["job.server", "up.network", "up.usage_journey", "up.country"])
                cls, attr = {"job.server": ("Job", "server"), "up.usage_journey": ("UsagePattern", "usage_journey"),
                             "up.network": ("UsagePattern", "network"), "up.country": ("UsagePattern", "country")}[choice]
                tcls = {"server": "Server", "usage_journey": "UsageJourney", "network": "Network", "country": "Country"}[attr]
                srcs = sorted(by_cls.get(cls, []))
                if len(srcs) < 2 or not by_cls.get(tcls):
                    continue
                target = rng.choice(sorted(by_cls[tcls]))
                movers = [o for o in rng.sample(srcs, min(len(srcs), rng.choice([2, 3]))) if getattr(live[o], attr).name != target]
                if len(movers) < 2:
                    continue
                changes = [("link", o, attr, target) for o in movers]
                if rng.random() < 0.4 and by_cls.get("UsageJourneyStep") and by_cls.get("Job"):
                    st = rng.choice(sorted(by_cls["UsageJourneyStep"]))
                    new = [rng.choice(sorted(by_cls["Job"])) for _ in range(rng.choice([1, 2]))]
                    if new != [x.name for x in live[st].jobs]:
                        changes.insert(rng.randint(0, len(changes)), ("list", st, "jobs", new))
                h.group_set(changes)
                kinds_seen["GroupSet"] = kinds_seen.get("GroupSet", 0) + 1
                last = h.events[-1]
                if last["exc"] != "none":
                    break
                continue
            if kind in ("listop", "setlist"):
                cls = rng.choice(["UsageJourney", "UsageJourneyStep", "UsagePattern"])
                if not by_cls.get(cls):
                    continue
                obj = rng.choice(sorted(by_cls[cls]))
                attr = LIST_ATTRS[cls]
                pool = sorted(by_cls.get(POOL_CLASS[attr], []))
                cur = [x.name for x in getattr(live[obj], attr)]
                if not pool:
                    continue
                if kind == "setlist":
                    new = [rng.choice(pool) for _ in range(rng.choice([1, 2, 3] if attr == "devices" else [0, 1, 2, 3]))]
                    if new == cur:
                        continue
                    ev = h.set_list(obj, attr, new)
                else:
                    op = rng.choice(["append", "insert", "extend", "iadd", "imul", "pop", "remove", "delitem",
                                     "setitem", "clear", "extend_gen", "iadd_gen", "iadd_self"])
                    x = rng.choice(pool)
                    if op == "iadd_self" and (len(cur) > 2 or not cur):
                        op = "iadd_gen"
                    args = {"append": [x], "insert": [rng.randint(0, 3), x],
                            "extend_gen": [[rng.choice(pool) for _ in range(rng.choice([1, 2]))]],
                            "iadd_gen": [[rng.choice(pool) for _ in range(rng.choice([1, 2]))]],
                            "iadd_self": [list(cur)],
                            "extend": [[rng.choice(pool) for _ in range(rng.choice([0, 1, 2]))]],
                            "iadd": [[rng.choice(pool) for _ in range(rng.choice([0, 1, 2]))]],
                            "imul": [rng.choice([0, 1, 2, 3])] if len(cur) <= 1 else [rng.choice([0, 1, 2])],
                            "pop": rng.choice([[], [0], [rng.randint(0, 3)]]), "remove": [x],
                            "delitem": [rng.randint(0, 3)], "setitem": [rng.randint(0, 3), x], "clear": []}[op]
                    if attr == "devices":
                        # an empty device list makes the usage pattern's footprint computation fail (not C16's business)
                        try:
                            after = efx.pylist_op(list(cur), op, args)
                        except Exception:
                            after = cur
                        if not after:
                            continue
                    ev = h.list_op(obj, attr, op, args)
                kinds_seen[ev["ev"] + ":" + ev.get("op", {}).get("name", "")] = \
                    kinds_seen.get(ev["ev"] + ":" + ev.get("op", {}).get("name", ""), 0) + 1
            elif kind == "setlink":
                choice = rng.choice(["job.server", "up.usage_journey", "up.network", "up.country"])
                cls, attr = {"job.server": ("Job", "server"), "up.usage_journey": ("UsagePattern", "usage_journey"),
                             "up.network": ("UsagePattern", "network"), "up.country": ("UsagePattern", "country")}[choice]
                tcls = {"server": "Server", "usage_journey": "UsageJourney", "network": "Network", "country": "Country"}[attr]
                if not by_cls.get(cls) or not by_cls.get(tcls):
                    continue
                obj = rng.choice(sorted(by_cls[cls]))
                new = rng.choice(sorted(by_cls[tcls]))
                if getattr(live[obj], attr).name == new:
                    continue
                h.set_link(obj, attr, new)
                kinds_seen["SetLink"] = kinds_seen.get("SetLink", 0) + 1
            elif kind == "delete":
                pool_del = sorted(by_cls.get("Job", []) + by_cls.get("UsageJourneyStep", []) + by_cls.get("UsageJourney", []))
                if not pool_del:
                    continue
                obj = rng.choice(pool_del)
                h.self_delete(obj)
                kinds_seen["SelfDelete"] = kinds_seen.get("SelfDelete", 0) + 1
            elif kind == "delete_unref":
                cands = [n for n in by_cls.get("Job", []) + by_cls.get("UsageJourneyStep", []) + by_cls.get("UsageJourney", [])
                         if not live[n].modeling_obj_containers]
                if cands:
                    h.self_delete(rng.choice(sorted(cands)))
                    kinds_seen["SelfDelete-unreferenced"] = kinds_seen.get("SelfDelete-unreferenced", 0) + 1
            last = h.events[-1]
            if last["exc"] not in ("none", "IndexError", "ValueError", "PermissionError"):
                break      # the live system may be half-updated after an unexpected exception
        # cross-system attempts at the end of the history (they may corrupt both systems)
        second_system(ns, h.live)
        live = h.live
        ups = [x.name for x in live["sys"].usage_patterns]
        attempts = [
            ("sys.usage_patterns.append(up of other system)", lambda: live["sys"].usage_patterns.append(live["up_B"])),
            ("usage_pattern.usage_journey = journey of other system",
             lambda: setattr(live[ups[0]], "usage_journey", live["uj_B"])),
            ("job.server = server of other system",
             lambda: setattr(live[sorted(n for n in live if type(live[n]).__name__ == "Job" and not n.endswith("_B")
                                         and live[n].systems)[0]], "server", live["sv_B"])),
            ("System(new, [usage pattern of an existing system])",
             lambda: ns.classes["System"]("third", usage_patterns=[live[ups[0]]])),
            ("journey.uj_steps.append(step of other system)",
             lambda: live[live[ups[0]].usage_journey.name].uj_steps.append(live["s_B"])),
            ("step.jobs.insert(0, job of other system)",
             lambda: [getattr(live[s.name], "jobs").insert(0, live["j_B"])
                      for s in live[live[ups[0]].usage_journey.name].uj_steps[:1]] or
                     live[live[ups[0]].usage_journey.name].uj_steps.extend([live["s_B"]])),
        ]
        # the same through an object that is in NO system yet: a new job running on the other system's server (or a new step holding
        # such a job) linked into this system -- the walk over what the new object brings along must reach that server

        def fresh_job():
            return ns.classes["Job"].from_defaults("fresh job", server=live["sv_B"])

        def fresh_step():
            return ns.classes["UsageJourneyStep"].from_defaults("fresh step", jobs=[fresh_job()])
        first_uj = live[live[ups[0]].usage_journey.name]
        if len(first_uj.uj_steps):
            attempts += [
                ("step.jobs.append(new job on the server of the other system)", lambda: first_uj.uj_steps[0].jobs.append(fresh_job())),
                ("step.jobs = [new job on the server of the other system]",
                 lambda: setattr(live[first_uj.uj_steps[0].name], "jobs", [fresh_job()])),
            ]
        attempts += [
            ("journey.uj_steps.append(new step with a new job on the server of the other system)",
             lambda: first_uj.uj_steps.append(fresh_step())),
            ("journey.uj_steps += [new step with a new job on the server of the other system]",
             lambda: setattr(first_uj, "uj_steps", first_uj.uj_steps.__iadd__([fresh_step()]))),
        ]
        what, fn = attempts[(seed * 7 + 3) % len(attempts)] if seed % 2 else attempts[seed % len(attempts)]
        if "job.server" in what and not any(type(o).__name__ == "Job" and not n.endswith("_B") and o.systems
                                            for n, o in live.items()):
            what, fn = attempts[0]          # no job of the first system to re-point
        h.cross_link(what, fn)
        # a refused operation may leave nothing behind: the history goes on with ordinary list operations
        if h.events[-1]["exc"] != "none":
            live = h.live
            for _ in range(4):
                cands = [(n, LIST_ATTRS[type(o).__name__]) for n, o in live.items()
                         if type(o).__name__ in ("UsageJourney", "UsageJourneyStep") and not n.endswith("_B")
                         and len(getattr(o, LIST_ATTRS[type(o).__name__])) > 0]
                if not cands:
                    break
                # the list on which the refused mutation was attempted first
                first = [c for c in cands if c[0] == live[ups[0]].usage_journey.name or
                         c[0] in [s.name for s in live[ups[0]].usage_journey.uj_steps[:1]]]
                obj, attr = rng.choice(sorted(first or cands))
                cur = [x.name for x in getattr(live[obj], attr)]
                op, args = rng.choice([("remove", [rng.choice(cur)]), ("pop", []), ("delitem", [0])])
                h.list_op(obj, attr, op, args)
                if h.events[-1]["exc"] != "none":
                    break
        events += h.events
        out.nontrivial |= {("history", seed, k) for k in range(len(h.events))}
    return events, tid, kinds_seen


def run(tier, out):
    wd = work_dir("c16")
    try:
        tlc.stage_specs(wd)
        elems, maxlen = (["a", "b"], 3) if tier == "quick" else (["a", "b", "c"], 4)
        res = tlc.run_tlc(wd, "EFLinks", links_cfg(elems, maxlen), workers=8, timeout=1800)
        tlc.require_clean(res, "EFLinks")
        out.add_tlc(res, f"EFLinks: all mutators, Elems={elems}, MaxLen={maxlen}", exhaustive=res.completed)
        if res.error:
            out.violation("model:" + res.error, {"tlc_output_tail": res.out[-5000:]})
        ns = efx.load()
        events, tid = replay_model_domain(ns, out, 0, tier)
        n_domain = len(events)
        base = seed_from_env() * 100000
        n_hist, n_ops = (24, 14) if tier == "quick" else (300, 30)
        ev2, tid, kinds = random_histories(ns, out, tid, range(base, base + n_hist), n_ops)
        events += ev2
        trace = os.path.join(wd, "c16.ndjson")
        tracecheck.write_trace(trace, events, keys=("tid", "seq", "ev", "exc", "T2", "rev", "attached_ok", "detached",
                                                      "obj", "attr", "op", "new", "changes", "what", "two_systems"))
        fails, _notes, res2 = tracecheck.validate(wd, "Trace_Links", trace, {})
        out.add_tlc(res2, "Trace_Links on recorded link edits")
        out.traces += tid
        out.evaluations += len(events)
        by_key = {(e["tid"], e["seq"]): e for e in events}
        for t, s, clause, data in fails:
            e = by_key.get((t, s), {})
            what = e.get("what") or (e.get("op", {}).get("name") or e.get("ev"))
            sig = f"{clause}:{e.get('ev')}:{what}" if clause.startswith(("cross", "object-in-two")) else \
                f"{clause}:{e.get('ev')}:{e.get('attr', '')}:{e.get('op', {}).get('name', '')}"
            out.violation(sig, {"clause": clause, "spec_says": data, "event": {k: e.get(k) for k in
                                ("ev", "obj", "attr", "op", "new", "exc", "what", "two_systems", "detached")},
                                "history_so_far": [{k: x.get(k) for k in ("ev", "obj", "attr", "op", "new", "exc")}
                                                   for x in events if x["tid"] == t and x["seq"] <= s][-8:]})
        for e in events[n_domain:n_domain + 60]:
            if e["ev"] != "Create":
                out.sample({k: e.get(k) for k in ("ev", "obj", "attr", "op", "new", "exc", "what")}, limit=6)
        out.extra.update({"rule": "a case = one link edit on a live real system, read back (forward links + every reverse "
                                  "look-up) and validated by TLC against the Python list model; distinct = (initial list, "
                                  "operation) for the enumerated domain, (seed, position) for histories",
                          "domain_cases": n_domain, "history_event_kinds": kinds})
        out.assumptions += ["list operations are always applied to the list fetched again from its attribute "
                            "(a reference to a superseded list object is outside the property)",
                            "an operation that empties a usage pattern's device list is not generated (the footprint "
                            "computation fails on it; that is not a link-consistency question)"]
    finally:
        cleanup(wd)


def replay(path, out):
    with open(path) as f:
        print(json.dumps(json.load(f)["detail"], indent=1)[:3000])
    run("quick", out)
