"""C06 -- a what-if simulation computes what really making the change would.

Same recorded simulations as C05 (spec/EFSim.tla protocol + Trace_Sim), judged on the other clauses: a simulation dated
at the first hour, once set, shows exactly the values of a rebuilt copy of the system to which the same changes were
really applied; at a date at which every usage pattern is still active no simulated series has an hour before the date;
every recomputed baseline value is paired with its simulated twin and vice versa; a date outside the modelled period or
a naive date is refused, a valid one is not.
"""
from . import c05


def run(tier, out):
    c05.run_focus("C06", "C06", tier, out)


def replay(path, out):
    run("quick", out)
