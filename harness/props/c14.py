"""C14 -- invalid inputs are rejected, and a rejected edit changes nothing.

The specification side is the rule of Trace_Edit (event Invalid): an invalid value must raise, and the observable state
(every input, link and calculated value) after the refusal equals the state before; the TLC model of a refused change is
the stuttering step.  The enumeration is exhaustive over the public class list: every class of ALL_EFOOTPRINT_CLASSES x
every constructor parameter x {wrong dimension, negative, wrong type (number / string object), list with an element of
the wrong class, value outside the allowed list, conditional value not allowed} x {construction, later assignment on a
live system, inside a grouped update after a valid change, inside a grouped update after a no-op change}.
"""
import inspect
import random
import typing

from .. import efx, gen, tlc, tracecheck
from ..common import work_dir, cleanup, seed_from_env, MachineryError


def context(ns):
    """fresh valid objects of every class, wired together (not yet in a system)"""
    c = ns.classes
    from efootprint.constants.countries import Countries
    ctx = {}
    ctx["Storage"] = c["Storage"].from_defaults("sto")
    ctx["Server"] = c["Server"].from_defaults("srv", storage=ctx["Storage"])
    ctx["GPUServer"] = c["GPUServer"].from_defaults("gpu", storage=c["Storage"].from_defaults("sto gpu"))
    ctx["Job"] = c["Job"].from_defaults("job", server=ctx["Server"])
    ctx["VideoStreaming"] = c["VideoStreaming"].from_defaults("vs", server=ctx["Server"])
    ctx["WebApplication"] = c["WebApplication"].from_defaults("wa", server=ctx["Server"])
    ctx["GenAIModel"] = c["GenAIModel"].from_defaults("genai", server=ctx["GPUServer"])
    ctx["VideoStreamingJob"] = c["VideoStreamingJob"].from_defaults("vsj", service=ctx["VideoStreaming"])
    ctx["WebApplicationJob"] = c["WebApplicationJob"].from_defaults("waj", service=ctx["WebApplication"])
    ctx["GenAIJob"] = c["GenAIJob"].from_defaults("gaj", service=ctx["GenAIModel"])
    ctx["UsageJourneyStep"] = c["UsageJourneyStep"].from_defaults(
        "step", jobs=[ctx["Job"], ctx["VideoStreamingJob"], ctx["WebApplicationJob"], ctx["GenAIJob"]])
    ctx["UsageJourney"] = c["UsageJourney"]("uj", uj_steps=[ctx["UsageJourneyStep"]])
    ctx["Device"] = c["Device"].from_defaults("dev")
    ctx["Network"] = c["Network"].from_defaults("net")
    ctx["Network2"] = c["Network"].from_defaults("net2")
    ctx["Country"] = c["Country"].from_defaults("country", short_name="CTR")
    ctx["UsagePattern"] = c["UsagePattern"]("up", ctx["UsageJourney"], [ctx["Device"]], ctx["Network"], ctx["Country"],
                                            efx.hourly(ns, [1, 2, 3, 4], "2025-01-01T00:00:00"))
    try:
        ctx["BoaviztaCloudServer"] = c["BoaviztaCloudServer"].from_defaults(
            "bcs", storage=c["Storage"].from_defaults("sto bcs"))
    except Exception as ex:   # noqa
        ctx["BoaviztaCloudServer"] = None
    return ctx


LINK_PARAM_CLASS = {"storage": "Storage", "server": None, "service": None, "usage_journey": "UsageJourney",
                    "network": "Network", "country": "Country"}


def valid_kwargs(ns, cls, ctx):
    kw = dict(cls.default_values())
    sig = inspect.signature(cls.__init__).parameters
    for p, par in sig.items():
        if p in ("self", "name") or p in kw:
            continue
        ann = par.annotation
        if typing.get_origin(ann) in (list, typing.List):
            inner = typing.get_args(ann)[0].__name__
            pool = {"UsageJourneyStep": [ctx["UsageJourneyStep"]], "JobBase": [ctx["Job"]], "Device": [ctx["Device"]],
                    "UsagePattern": [ctx["UsagePattern"]]}[inner]
            kw[p] = list(pool)
        elif isinstance(ann, type) and issubclass(ann, ns.ModelingObject):
            name = ann.__name__
            if name == "Storage":
                kw[p] = ns.classes["Storage"].from_defaults("fresh storage")
            elif name in ctx and ctx[name] is not None:
                kw[p] = ctx[name]
            elif name == "ServerBase":
                kw[p] = ctx["Server"]
            else:
                raise MachineryError(f"no context object for {cls.__name__}.{p}: {name}")
        elif p == "short_name":
            kw[p] = "XX"
        elif p == "hourly_usage_journey_starts":
            kw[p] = efx.hourly(ns, [1, 2, 3, 4], "2025-01-01T00:00:00")
        elif p == "fixed_nb_of_instances":
            continue
    return kw


def invalid_values(ns, cls, param, default, rng):
    """[(what, value)] invalid values for one parameter given a valid default value"""
    u = ns.u
    out = []
    if isinstance(default, ns.ExplainableQuantity):
        dim = default.value.dimensionality
        other = ns.SourceValue(1 * u.kg) if dim != u.kg.dimensionality else ns.SourceValue(1 * u.s)
        out.append(("wrong-dimension", other))
        # a null amount of something else is still something else (0 kg is not a duration)
        out.append(("wrong-dimension", ns.SourceValue(0 * u.kg) if dim != u.kg.dimensionality else ns.SourceValue(0 * u.s)))
        if param not in cls.attributes_that_can_have_negative_values():
            out.append(("negative", ns.SourceValue(-(abs(default.value.magnitude) + 1) * default.value.units)))
        out.append(("wrong-type:number", 3.0))
        out.append(("wrong-type:text-object", ns.SourceObject("text")))
    elif isinstance(default, ns.ExplainableHourlyQuantities):
        out.append(("wrong-type:scalar-for-hourly", ns.SourceValue(3 * u.dimensionless)))
        out.append(("wrong-type:number", 3.0))
    elif isinstance(default, ns.ExplainableObject) and isinstance(default.value, str):
        if param in cls.list_values() or param in cls.conditional_list_values():
            out.append(("outside-allowed-list", ns.SourceObject("not-an-allowed-value")))
        out.append(("wrong-type:number", 3.0))
    elif isinstance(default, list):
        out.append(("list-with-wrong-class", list(default) + [ns.classes["Country"].from_defaults("intruder", short_name="I")]))
    return out


def state_of(ns, objs):
    """values, forward links and reverse look-ups of every object"""
    return {n: {a: efx.project_value(ns, v) for a, v in efx.explainable_attrs(ns, o).items() if a not in efx.BOOKKEEPING}
            for n, o in objs.items()}, \
           {n: dict(efx.topology(ns, {n: o})[n], used_by=sorted(x.name for x in o.modeling_obj_containers))
            for n, o in objs.items()}


def changed(ns, before, objs):
    vals, links = before
    v2, l2 = state_of(ns, objs)
    out = [list(x) for x in efx.diff(vals, v2, sorted(vals))]
    out += [[n, "<links>"] for n in links if links[n] != l2.get(n)]
    return out


def run(tier, out):
    wd = work_dir("c14")
    try:
        tlc.stage_specs(wd)
        ns = efx.load()
        rng = random.Random(seed_from_env())
        events, tid = [], 0
        skipped = []
        per_class = {}
        for cls in ns.aco.ALL_EFOOTPRINT_CLASSES:
            cname = cls.__name__
            try:
                ctx = context(ns)
                if cname == "System":
                    base_kw = {"usage_patterns": [ctx["UsagePattern"]]}
                else:
                    base_kw = valid_kwargs(ns, cls, ctx)
                probe = cls("probe " + cname, **base_kw)
            except Exception as ex:   # noqa
                skipped.append(f"{cname}: cannot build a valid instance here ({type(ex).__name__}: {str(ex)[:80]})")
                continue
            params = [p for p in inspect.signature(cls.__init__).parameters if p not in ("self", "name")]
            for p in params:
                default = base_kw.get(p)
                if p == "fixed_nb_of_instances":
                    cases = [("wrong-dimension", ns.SourceValue(1 * ns.u.kg)), ("negative", ns.SourceValue(-2 * ns.u.dimensionless))]
                    if cname in ("Server", "GPUServer", "BoaviztaCloudServer"):
                        cases.append(("conditional-value-not-allowed", ns.SourceValue(3 * ns.u.dimensionless)))
                elif default is None:
                    continue
                else:
                    cases = invalid_values(ns, cls, p, default, rng)
                if p == "server_type" and cname in ("Server", "GPUServer", "BoaviztaCloudServer"):
                    # a value that is allowed in itself but not together with the fixed number of instances already set
                    cases.append(("incompatible-with-the-fixed-count", ns.SourceObject("autoscaling")))
                for what, bad in cases:
                    per_class[cname] = per_class.get(cname, 0) + 1
                    # 1. construction
                    ctx = context(ns)
                    kw = {"usage_patterns": [ctx["UsagePattern"]]} if cname == "System" else valid_kwargs(ns, cls, ctx)
                    if p == "fixed_nb_of_instances" and "server_type" in kw:
                        kw["server_type"] = ns.ServerTypes.autoscaling() if what == "conditional-value-not-allowed" \
                            else ns.ServerTypes.on_premise()
                    before = state_of(ns, {k: v for k, v in ctx.items() if v is not None})
                    if what == "incompatible-with-the-fixed-count":
                        bad = ns.SourceObject("autoscaling")        # a fresh value object for each attempt
                        kw["fixed_nb_of_instances"] = ns.SourceValue(1000 * ns.u.dimensionless)
                    kw[p] = bad
                    exc = "none"
                    try:
                        cls("invalid " + cname, **kw)
                    except Exception as ex:   # noqa
                        exc = type(ex).__name__
                    tid += 1
                    events.append({"tid": tid, "seq": 0, "ev": "Invalid", "where": "construction", "cls": cname, "attr": p,
                                   "what": what, "exc": exc, "changed": []})
                    out.nontrivial.add((cname, p, what, "construction"))
                    # 2. later assignment, 3./4. grouped updates -- on an object of a live system
                    if cname == "System":
                        continue
                    import zlib
                    pick = zlib.crc32(f"{cname}.{p}.{what}".encode()) % 3 + 1
                    for k, where in enumerate(("assignment", "grouped-after-valid-change", "grouped-after-no-op-change",
                                               "grouped-after-relink")):
                        if tier == "quick" and k > 0 and k != pick:
                            continue        # quick tier: each case is tried in one of the three grouped forms
                        ctx = context(ns)
                        if what == "conditional-value-not-allowed":
                            target = ctx.get(cname)
                            if target is None or target.server_type.value != "autoscaling":
                                if target is None:
                                    continue
                        target = ctx.get(cname)
                        if target is None:
                            continue
                        system = ns.classes["System"]("live", usage_patterns=[ctx["UsagePattern"]])
                        objs = {k: v for k, v in ctx.items() if v is not None}
                        objs["System"] = system
                        if p == "fixed_nb_of_instances" and hasattr(target, "server_type"):
                            wanted = "autoscaling" if what == "conditional-value-not-allowed" else "on-premise"
                            if target.server_type.value != wanted:
                                target.server_type = ns.SourceObject(wanted)
                        if what == "incompatible-with-the-fixed-count":
                            bad = ns.SourceObject("autoscaling")
                            target.server_type = ns.SourceObject("on-premise")
                            target.fixed_nb_of_instances = ns.SourceValue(1000 * ns.u.dimensionless)
                        before = state_of(ns, objs)
                        exc = "none"
                        try:
                            if where == "assignment":
                                setattr(target, p, bad)
                            else:
                                old = getattr(target, p)
                                other = ctx["Network"].bandwidth_energy_intensity
                                if where.endswith("valid-change"):
                                    first = [other, ns.SourceValue(other.value * 2)]
                                elif where.endswith("no-op-change"):
                                    first = [other, ns.SourceValue(other.value)]
                                elif cname == "UsagePattern" and p == "network":
                                    first = [ctx["Job"].server, ctx["GPUServer"]]
                                else:       # a link is re-pointed by a change that precedes the invalid one
                                    first = [ctx["UsagePattern"].network, ctx["Network2"]]
                                ns.ModelingUpdate([first, [old, bad]])
                        except Exception as ex:   # noqa
                            exc = type(ex).__name__
                        tid += 1
                        events.append({"tid": tid, "seq": 0, "ev": "Invalid", "where": where, "cls": cname, "attr": p,
                                       "what": what, "exc": exc, "changed": changed(ns, before, objs)[:6]})
                        out.nontrivial.add((cname, p, what, where))
        # two changes of one update that are each allowed with the value the OTHER attribute had before, and not allowed together:
        # an on-premise server becomes autoscaling and is given a fixed number of instances at once (both orders)
        for cname in ("Server", "GPUServer", "BoaviztaCloudServer"):
            for order in (0, 1):
                ctx = context(ns)
                target = ctx.get(cname)
                if target is None:
                    continue
                system = ns.classes["System"]("live", usage_patterns=[ctx["UsagePattern"]])
                objs = {k: v for k, v in ctx.items() if v is not None}
                objs["System"] = system
                if target.server_type.value != "on-premise":
                    target.server_type = ns.SourceObject("on-premise")
                before = state_of(ns, objs)
                pair = [[target.server_type, ns.SourceObject("autoscaling")],
                        [target.fixed_nb_of_instances, ns.SourceValue(1000 * ns.u.dimensionless)]]
                exc = "none"
                try:
                    ns.ModelingUpdate(pair[::-1] if order else pair)
                except Exception as ex:   # noqa
                    exc = type(ex).__name__
                tid += 1
                events.append({"tid": tid, "seq": 0, "ev": "Invalid", "where": "grouped-pair-not-allowed-together", "cls": cname,
                               "attr": "server_type+fixed_nb_of_instances", "what": "conditional-value-not-allowed", "exc": exc,
                               "changed": changed(ns, before, objs)[:6]})
                out.nontrivial.add((cname, "server_type+fixed_nb_of_instances", "pair", str(order)))
        # identity level: an update refused by the validation (at parse time, or by the allowed-values check after the values
        # were applied) is EFSim's Update action failing at its first or second step: all or nothing
        from . import c05
        from .. import simcheck
        resm = tlc.run_tlc(wd, "EFSim", c05.model_cfg("FALSE"), workers=4, timeout=900)
        tlc.require_clean(resm, "EFSim")
        out.add_tlc(resm, "EFSim protocol incl. undated updates refused by validation (AllOrNothing)", exhaustive=resm.completed)
        if resm.error:
            out.violation("model:" + resm.error, {"tlc_output_tail": resm.out[-4000:]})
        pevents = []
        for k, seed in enumerate(range(seed_from_env() * 100000 + 9500, seed_from_env() * 100000 + 9500 + (12 if tier == "quick" else 200))):
            pevents += simcheck.plain_history(ns, 7000 + k, seed, flavours=("invalid", "not-allowed", "input", "struct"))
        ptrace = wd + "/c14_plain.ndjson"
        tracecheck.write_trace(ptrace, pevents, keys=c05.KEYS + ("live_toks",))
        pf, _pn, res3 = tracecheck.validate(wd, "Trace_Sim", ptrace, {"Focus": tlc.tla_str("C15")}, timeout=3000)
        out.add_tlc(res3, "Trace_Sim on undated updates refused by validation (identities and graph)")
        out.evaluations += len(pevents)
        pby = {(e["tid"], e["seq"]): e for e in pevents}
        for t_, s_, clause, data in pf:
            e = pby.get((t_, s_), {})
            out.violation(f"{clause}:{e.get('flavour')}", {"spec_says": data[:1500], "seed": e.get("seed"), "flavour": e.get("flavour"),
                                                          "outcome": e.get("outcome"), "exc": e.get("exc")})
        out.extra["undated_updates_refused_by_validation_projected_at_identity_level"] = \
            sum(1 for e in pevents if e["ev"] == "PlainUpdate" and e["outcome"] == "raised")
        trace = wd + "/c14.ndjson"
        tracecheck.write_trace(trace, events, keys=("tid", "seq", "ev", "where", "cls", "attr", "what", "exc", "changed"))
        fails, _n, res2 = tracecheck.validate(wd, "Trace_Edit", trace, {"JFN": "TRUE"}, timeout=3000)
        out.add_tlc(res2, "Trace_Edit on the enumeration of invalid values")
        out.traces += len(events)
        out.evaluations += len(events)
        by = {e["tid"]: e for e in events}
        for t, s, clause, data in fails:
            e = by.get(t, {})
            sig = f"{clause}:{e.get('cls')}.{e.get('attr')}:{e.get('what')}"
            if e.get("attr") == "fixed_nb_of_instances" and e.get("what") in ("wrong-dimension", "negative"):
                sig = f"fixed_nb_of_instances-not-validated:{e.get('cls')}"
            out.violation(sig,
                          {"spec_says": data[:800], "event": e})
        for e in events[:5]:
            out.sample(e)
        excs = {}
        for e in events:
            excs[e["exc"]] = excs.get(e["exc"], 0) + 1
        out.extra.update({"rule": "a case = (class, parameter, kind of invalid value, place); exhaustive over the public class "
                                  "list and the kinds listed in the module docstring", "cases_per_class": per_class,
                          "exception_classes": excs, "classes_skipped": skipped, "exhaustive": not skipped})
        out.assumptions += ["a refusal is any exception; the state compared is every input, link and calculated value of "
                            "every object of the live system"]
        if len(per_class) < 12:
            raise MachineryError(f"vacuous run: only {len(per_class)} classes enumerated; skipped: {skipped}")
    finally:
        cleanup(wd)


def replay(path, out):
    run("quick", out)
