"""C07 -- every computed value is reproduced by the formula it displays.

1. TLC: the dimension algebra and operator table of spec/EFQuantity.tla (MC_Quantity laws, shared with C09).
2. conformance (Trace_Explain): after seeded edit histories on real systems (core classes) and on builder scenarios
   (video streaming, web application, generative AI, cloud server), the explanation tree of EVERY calculated attribute is
   walked from the attribute down to the values attached to the model; every node is logged (operator, dimension vector,
   label / source / attached flags, decimal-float samples of operands and result: one for scalars, up to three hours for
   hourly values) and TLC re-evaluates + - * / nodes, checks the dimension algebra, that explain() works, that the
   attribute is labelled and that every leaf is a labelled input of the model with a source.
"""
import math
import random

from datetime import timedelta

from .. import efx, gen, history, simcheck, tlc, tracecheck
from ..common import work_dir, cleanup, seed_from_env
from . import c17

ARITH = {"+", "-", "*", "/"}


def dims(ns, v):
    if isinstance(v, ns.EmptyExplainableObject):
        return []
    units = v.value.dtypes.iloc[0].units if isinstance(v, ns.ExplainableHourlyQuantities) else \
        (v.value.units if isinstance(v, ns.ExplainableQuantity) else None)
    if units is None:
        return []
    return [[k, int(e)] if float(e).is_integer() else [k, int(round(float(e) * 1000)) * 1000] for k, e in
            sorted(dict(ns.u.get_dimensionality(units)).items())]


def kind(ns, v):
    if isinstance(v, ns.EmptyExplainableObject):
        return "E"
    if isinstance(v, ns.ExplainableHourlyQuantities):
        return "H"
    if isinstance(v, ns.ExplainableQuantity):
        return "Q"
    return "O"


def magnitude_at(ns, v, hour):
    """physical magnitude (base units) of a node at an hour (None = scalar sample); missing / empty = 0"""
    if isinstance(v, ns.EmptyExplainableObject):
        return 0.0
    if isinstance(v, ns.ExplainableHourlyQuantities):
        if hour is None:
            return None
        df = v.value
        f = efx._base_factor(ns, df.dtypes.iloc[0].units)
        try:
            x = df["value"].get(hour)
        except Exception:
            x = None
        return 0.0 if x is None else float(getattr(x, "magnitude", x)) * f
    if isinstance(v, ns.ExplainableQuantity):
        return float(v.value.magnitude) * efx._base_factor(ns, v.value.units)
    return None


def dec4(x):
    if x == 0:
        return 0, 0
    e = int(math.floor(math.log10(abs(x)))) - 3
    return int(round(x / 10 ** e)), e


def sample(op, l, r, n):
    """integers for TLC; None when the sample cannot be expressed (NaN / infinite)"""
    if any(x is None or x != x or abs(x) == float("inf") for x in (l, r, n)):
        return None
    if op in ("+", "-"):
        m = max(abs(l), abs(r), abs(n))
        if m == 0:
            return {"L": 0, "R": 0, "N": 0}
        e = int(math.floor(math.log10(m))) - 6
        return {"L": int(round(l / 10 ** e)), "R": int(round(r / 10 ** e)), "N": int(round(n / 10 ** e))}
    if op == "*":
        (ml, el), (mr, er) = dec4(l), dec4(r)
        return {"L": ml, "R": mr, "N": int(round(n / 10 ** (el + er))) if abs(n / 10 ** (el + er)) < 2 ** 30 else 2 ** 30}
    (mn, en), (mr, er) = dec4(n), dec4(r)
    q = l / 10 ** (en + er)
    return {"L": int(round(q)) if abs(q) < 2 ** 30 else 2 ** 30, "R": mr, "N": mn}


OTHER_OPS = {"ceil": "ceil", "abs": "abs", "negate": "neg", "sum": "agg-sum", "mean": "agg-mean", "max": "agg-max",
             "max compared with": "max2", "min compared with": "min2"}


def scaled7(*xs):
    m = max(abs(x) for x in xs)
    if m == 0:
        return [0 for _ in xs]
    e = int(math.floor(math.log10(m))) - 6
    return [int(round(x / 10 ** e)) for x in xs]


def other_samples(ns, op, v, lp, rp):
    """samples for the operators that are not + - * /: element-wise ceil / abs / negation / maximum / minimum, and the
    sum / mean / maximum of a series (computed here over the whole recorded operand), all in base units"""
    f = OTHER_OPS[op]
    if f == "agg-max" and rp is not None:
        f = "max2"                                   # the larger of two scalars
    out = []
    if f.startswith("agg"):
        if not isinstance(lp, ns.ExplainableHourlyQuantities) or not isinstance(v, ns.ExplainableQuantity):
            return out
        fac = efx._base_factor(ns, lp.value.dtypes.iloc[0].units)
        xs = [float(x) * fac for x in lp.value["value"].values._data]
        agg = {"agg-sum": sum(xs), "agg-mean": sum(xs) / len(xs), "agg-max": max(xs)}[f]
        n = magnitude_at(ns, v, None)
        if n is None or n != n or agg != agg:
            return out
        a, b = scaled7(agg, n)
        return [{"f": "agg", "L": a, "R": 0, "N": b}]
    hours = [None]
    if isinstance(v, ns.ExplainableHourlyQuantities):
        idx = v.value.index
        hours = sorted({idx[0], idx[len(idx) // 2], idx[-1]})
    for h in hours:
        l, n = magnitude_at(ns, lp, h), magnitude_at(ns, v, h)
        r = magnitude_at(ns, rp, h) if rp is not None else 0.0
        if any(x is None or x != x or abs(x) == float("inf") for x in (l, r, n)):
            continue
        if f == "ceil":
            if dims(ns, v) or dims(ns, lp) or abs(l) > 2e6 or abs(n) > 2e6:
                continue                              # only counts (no dimension) are ceiled by the library
            out.append({"f": "ceil", "L": int(round(l * 1000)), "R": 0, "N": int(round(n * 1000))})
        else:
            if f in ("max2", "min2") and dims(ns, lp) != dims(ns, rp):
                continue
            a, b, c_ = scaled7(l, r, n)
            out.append({"f": f, "L": a, "R": b, "N": c_})
    return out


def tree_event(ns, tid, seq, slot, value, calculated_ids):
    nodes, index = [], {}

    def visit(v, root=False):
        if id(v) in index:
            return index[id(v)]
        pos = len(nodes) + 1
        index[id(v)] = pos
        attached = v.modeling_obj_container is not None
        is_input = attached and id(v) not in calculated_ids
        node = {"op": v.operator or "", "l": 0, "r": 0, "kind": kind(ns, v), "dim": dims(ns, v), "label": bool(v.label),
                "text": (v.label or "")[:40], "source": getattr(v, "source", None) is not None, "attached": attached,
                "input": is_input, "constant": getattr(v, "source", None) is not None and not is_input, "smp": [],
                "leaf": v.left_parent is None and v.right_parent is None}
        nodes.append(node)
        if root or not attached:          # an attached value is explained on its own
            if v.left_parent is not None:
                node["l"] = visit(v.left_parent)
            if v.right_parent is not None:
                node["r"] = visit(v.right_parent)
        if node["op"] in ARITH and node["l"] and node["r"]:
            lp, rp = v.left_parent, v.right_parent
            hours = [None]
            if isinstance(v, ns.ExplainableHourlyQuantities):
                idx = v.value.index
                hours = sorted({idx[0], idx[len(idx) // 2], idx[-1]})
            for h in hours:
                s = sample(node["op"], magnitude_at(ns, lp, h), magnitude_at(ns, rp, h), magnitude_at(ns, v, h))
                if s is not None:
                    node["smp"].append(s)
        elif node["op"] in OTHER_OPS and node["l"] and not isinstance(v, ns.EmptyExplainableObject):
            try:
                node["smp"] += other_samples(ns, node["op"], v, v.left_parent, v.right_parent if node["r"] else None)
            except Exception:   # noqa: an operand that cannot be sampled is not sampled
                pass
        return pos
    ok, err = True, "none"
    try:
        value.explain()
    except Exception as ex:   # noqa
        ok, err = False, f"{type(ex).__name__}: {str(ex)[:100]}"
    visit(value, root=True)
    return {"tid": tid, "seq": seq, "ev": "Tree", "slot": slot, "explain_ok": ok, "explain_error": err, "nodes": nodes}


def system_events(ns, tid, objs, tag):
    events = []
    calculated_ids = set()
    for o in objs.values():
        for a in o.calculated_attributes:
            v = getattr(o, a)
            for x in (v.values() if isinstance(v, dict) else [v]):
                calculated_ids.add(id(x))
    seq = 0
    for n in sorted(objs):
        o = objs[n]
        for a in o.calculated_attributes:
            v = getattr(o, a)
            items = [(f"{n}.{a}[{k.name}]", x) for k, x in v.items()] if isinstance(v, dict) else [(f"{n}.{a}", v)]
            for slot, x in items:
                if isinstance(x, ns.EmptyExplainableObject) and x.left_parent is None and x.right_parent is None:
                    continue            # never computed
                seq += 1
                ev = tree_event(ns, tid, seq, slot, x, calculated_ids)
                ev["tag"] = tag
                events.append(ev)
    return events


def builder_objects(ns, system):
    objs = {o.name: o for o in system.all_linked_objects}
    objs = {n: (o._value if type(o).__name__ == "ContextualModelingObjectAttribute" else o) for n, o in objs.items()}
    objs[system.name] = system
    return objs


def run(tier, out):
    wd = work_dir("c07")
    try:
        tlc.stage_specs(wd)
        cfg = "SPECIFICATION Spec\n" + "".join(f"INVARIANT {i}\n" for i in (
            "ProductDimension", "IncompatibleDimensionsRaise", "AdditionCommutes", "MultiplicationCommutes"))
        res = tlc.run_tlc(wd, "MC_Quantity", cfg, workers=8, timeout=900)
        tlc.require_clean(res, "MC_Quantity")
        out.add_tlc(res, "MC_Quantity: dimension algebra laws", exhaustive=res.completed)
        ns = efx.load()
        base = seed_from_env() * 100000
        n_hist, n_edits = (6, 4) if tier == "quick" else (80, 10)
        events, tid, n_sim = [], 0, 0
        log = efx.EventLog(ns)
        for seed in range(base, base + n_hist):
            rng = random.Random(seed)
            model = gen.random_model(rng)
            if seed % 2:        # defaults hide what a non-zero initial need, idle power or base consumption would show
                for sto in efx.names_of(model, "Storage"):
                    model[sto]["inp"]["base_storage_need"] = [rng.choice([0.5, 2]), "TB"]
                    model[sto]["inp"]["idle_power"] = [rng.choice([1, 5]), "W"]
            if seed % 3 != 2:
                # inputs written in other units than the defaults' (a server's RAM in MB, a disk's capacity in GB, ...): the recorded
                # operations must still give the recorded values
                from . import c10
                for n_ in sorted(model):
                    if n_.startswith("__"):
                        continue
                    for a_ in sorted(model[n_]["inp"]):
                        forced = (model[n_]["cls"], a_) in (("Server", "ram"), ("Storage", "storage_capacity"), ("Job", "ram_needed"))
                        if forced or rng.random() < 0.3:
                            alts = c10.alternatives(ns, model[n_]["inp"][a_][1])
                            if alts:
                                model[n_]["inp"][a_] = c10.reexpress(ns, model[n_]["inp"][a_], rng.choice(alts))
            tid += 1
            try:
                h = history.LiveHistory(ns, log, tid, model)
            except Exception:
                continue
            for _ in range(n_edits):
                ev = h.do(gen.random_edit(rng, h.model), compare_with_rebuild=False)
                if ev["ev"] == "Raised":
                    break
            objs = {n: h.live[n] for n in efx.reachable(h.model)}
            events += system_events(ns, tid, objs, f"seed {seed}")
            out.nontrivial.add(("history", seed))
            # the same while the values of a what-if simulation are switched on (truncated series, simulated twins)
            lo, hi, _last = simcheck.period(ns, h.live, h.model)
            if lo is not None and hi > lo:
                cands = [(n, a) for n in sorted(objs) for a in h.model[n]["inp"]]
                for _try in range(6):
                    n, a = rng.choice(cands)
                    old = getattr(h.live[n], a)
                    date = (lo + timedelta(hours=rng.randint(0, max(0, int((hi - lo).total_seconds() // 3600) - 1)))).to_pydatetime()
                    try:
                        sim = ns.ModelingUpdate([[old, ns.SourceValue(old.value * 2)]], date)
                    except Exception:   # noqa: refused simulations are C05 / C06's subject
                        continue
                    sim.set_updated_values()
                    tid += 1
                    events += system_events(ns, tid, objs, f"seed {seed} simulation-set")
                    sim.reset_values()
                    n_sim += 1
                    out.nontrivial.add(("history+simulation", seed))
                    break
            # ... and after the system was exported with its calculated attributes (an observation, not an edit)
            try:
                ns.system_to_json(h.live[efx.system_name(h.model)], save_calculated_attributes=True)
                exported = True
            except Exception:   # noqa: an export that raises is C13's subject
                exported = False
            if exported:
                tid += 1
                events += system_events(ns, tid, objs, f"seed {seed} after-export")
                out.nontrivial.add(("history+export", seed))
        log.close()
        # builder classes
        rng = random.Random(base + 3)
        c = ns.classes
        srv = c17.plain_server(ns)
        vs = c["VideoStreaming"].from_defaults("streaming", server=srv)
        wa = c["WebApplication"].from_defaults("web app", server=srv)
        gpu = c["GPUServer"].from_defaults("gpu server", storage=c["Storage"].from_defaults("gpu storage"), compute=c17.sv(ns, 64, "gpu"))
        ga = c["GenAIModel"].from_defaults("genai", server=gpu)
        jobs = [c["VideoStreamingJob"].from_defaults("video job", service=vs), c["WebApplicationJob"].from_defaults("web job", service=wa),
                c["GenAIJob"].from_defaults("genai job", service=ga), c["Job"].from_defaults("plain job", server=srv)]
        try:
            cloud = c["BoaviztaCloudServer"].from_defaults("cloud server", storage=c["Storage"].from_defaults("cloud storage"))
            jobs.append(c["Job"].from_defaults("cloud job", server=cloud))
        except Exception:
            pass
        system = c17.usage(ns, jobs)
        tid += 1
        events += system_events(ns, tid, builder_objects(ns, system), "builders")
        out.nontrivial.add(("builders",))
        trace = wd + "/c07.ndjson"
        tracecheck.write_trace(trace, events, keys=("tid", "seq", "ev", "slot", "explain_ok", "explain_error", "nodes"))
        fails, _n, res2 = tracecheck.validate(wd, "Trace_Explain", trace, {}, timeout=6000)
        out.add_tlc(res2, "Trace_Explain on explanation trees")
        out.traces += tid
        n_nodes = sum(len(e["nodes"]) for e in events)
        n_arith = sum(1 for e in events for nd in e["nodes"] if nd["op"] in ARITH and nd["smp"])
        out.evaluations += n_nodes
        by = {(e["tid"], e["seq"]): e for e in events}
        import re
        for t, s, clause, data in fails:
            e = by.get((t, s), {})
            kinds = sorted(set(re.findall(r'\\"([a-z-]+(?:-[-+*/])?(?::[^\\"]*)?)\\", \d+', data)))
            for kd in (kinds or [clause]):
                sig = f"{clause}:{kd}" if kinds else clause
                nodes = e.get("nodes", [])
                out.violation(sig, {"slot": e.get("slot"), "tag": e.get("tag"), "spec_says": data[:1500],
                                    "nodes": nodes[:12]})
        for e in events[:2]:
            out.sample({"slot": e["slot"], "nodes": e["nodes"][:5]})
        out.extra.update({"rule": "a case = the explanation tree of one calculated attribute; nodes and arithmetic nodes are counted",
                          "trees": len(events), "systems_walked_with_simulated_values_switched_on": n_sim, "nodes": n_nodes, "arithmetic_nodes_re_evaluated": n_arith})
        out.assumptions += ["arithmetic faithfulness is decided to 4 significant digits for products and quotients, 7 for sums "
                            "and differences; hourly values are sampled at their first, middle and last hour",
                            "operators other than + - * / (shift, ceil, max, UTC conversion, 'logically dependent on', table "
                            "look-ups ...) are checked for structure and dimension only",
                            "empty values ('no value') at the leaves are neutral accumulators, not inputs",
                            "a parentless value that carries a label and a source is accepted as a leaf whether it is an "
                            "attribute of a modelling object or a sourced constant of a builder (e.g. the default request "
                            "duration of web application jobs)"]
    finally:
        cleanup(wd)


def replay(path, out):
    run("quick", out)
