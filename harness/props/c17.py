"""C17 -- service and cloud-server builders are faithful shorthand.

Specification: spec/Trace_Builders.tla states the builders' rules (video streaming in exact integer arithmetic on lattice
parameters; generative AI, web application and cloud server as 'derived parameter = rule evaluated on the inputs read from
the objects' to 7 significant digits) and the two equivalences: builder model = plain model carrying the derived
parameters with the service's base consumption added to the server's (Twin), and live builder model after an input edit =
rebuilt model (Refresh).  Driver: every allowed resolution, a seeded sample (all in the thorough tier) of web-application
technologies x implementation details, of cloud providers x instance types, of generative-AI providers x models, numeric
parameters drawn from small sets, alone or next to a plain job on the same server; every builder input is edited on the
live model.
"""
import math
import random
import re

from .. import efx, tlc, tracecheck
from ..common import work_dir, cleanup, seed_from_env, MachineryError


def sv(ns, x, unit):
    return ns.SourceValue(x * ns.u(unit))


def usage(ns, jobs, name="up", scale=1):
    c = ns.classes
    step = c["UsageJourneyStep"]("step", user_time_spent=sv(ns, 20, "min"), jobs=jobs)
    uj = c["UsageJourney"]("journey", uj_steps=[step])
    up = c["UsagePattern"](name, uj, [c["Device"].from_defaults("device")], c["Network"].from_defaults("network"),
                           c["Country"].from_defaults("country", short_name="CTR"),
                           efx.hourly(ns, [x * scale for x in (3, 1, 4, 1, 5, 9, 2, 6)], "2025-01-01T00:00:00"))
    return c["System"]("system", usage_patterns=[up])


def plain_server(ns, name="server", **kw):
    c = ns.classes
    return c["Server"].from_defaults(name, storage=c["Storage"].from_defaults("storage"), **kw)


def footprints(ns, system):
    """name -> {attr: projected value} of the infrastructure, network, devices and system results"""
    out = {}
    objs = {"server": system.servers, "storage": system.storages, "network": system.networks,
            "usage": list(system.usage_patterns)}
    for kind, lst in objs.items():
        for k, o in enumerate(sorted(lst, key=lambda x: x.name)):
            out[f"{kind}{k}"] = {a: efx.project_value(ns, getattr(o, a)) for a in o.calculated_attributes
                                 if not isinstance(getattr(o, a), dict) and a not in
                                 ("api_call_response", "carbon_footprint_fabrication", "power", "ram", "compute", "idle_power")}
    out["system"] = {"total_footprint": efx.project_value(ns, system.total_footprint)}
    return out


def differing(a, b):
    return [list(x) for x in efx.diff(a, b, sorted(a))]


def seven_digits(x, y):
    """two floats as integers with 7 significant digits of the larger one and the common exponent"""
    m = max(abs(x), abs(y))
    if m == 0:
        return 0, 0, 0
    e = int(math.floor(math.log10(m))) - 6
    return int(round(x / 10 ** e)), int(round(y / 10 ** e)), e


def dec4(x):
    """a float as [mantissa, exponent] with a 4-digit mantissa (EFDecimal)"""
    if x == 0:
        return [0, 0]
    e = int(math.floor(math.log10(abs(x)))) - 3
    m = int(round(x / 10 ** e))
    if abs(m) >= 10000:
        m, e = int(round(m / 10)), e + 1
    return [m, e]


def rule_event(tid, seq, rule, got, **factors):
    return {"tid": tid, "seq": seq, "ev": "Rule", "rule": rule, "got": dec4(got), "f": {k: dec4(v) for k, v in factors.items()}}


def base(ns, q, unit):
    return float(q.value.to(ns.u(unit)).magnitude)


# ---------------------------------------------------------------------------
def video_events(ns, rng, tid0, tier):
    c = ns.classes
    events, tid = [], tid0
    resolutions = [r.value for r in c["VideoStreamingJob"].list_values()["resolution"]]
    for res in resolutions:
        for with_plain in (False, True):
            tid += 1
            bpp_milli, fps, dur_s = rng.choice([100, 50, 1000]), rng.choice([10, 30, 60]), rng.choice([60, 600, 3600])
            buffer_mb, base_gb, cost = rng.choice([50, 100]), rng.choice([1, 2]), rng.choice([1, 4])

            def build(plain_twin=False, overrides=None):
                o = {"bpp": bpp_milli / 1000, "fps": fps, "dur": dur_s, "buf": buffer_mb, "base": base_gb, "cost": cost,
                     "res": res}
                o.update(overrides or {})
                srv = plain_server(ns, base_ram_consumption=sv(ns, 1 + (o["base"] if plain_twin else 0), "GB"))
                jobs = []
                if plain_twin:
                    d = o["derived"]
                    jobs.append(c["Job"]("video job", srv, data_transferred=d["dt"], data_stored=sv(ns, 0, "MB"),
                                         request_duration=d["dur"], compute_needed=d["cpu"], ram_needed=d["ram"]))
                else:
                    svc = c["VideoStreaming"]("streaming", srv, base_ram_consumption=sv(ns, o["base"], "GB"),
                                              bits_per_pixel=sv(ns, o["bpp"], "dimensionless"),
                                              static_delivery_cpu_cost=sv(ns, o["cost"], "cpu_core/(GB/s)"),
                                              ram_buffer_per_user=sv(ns, o["buf"], "MB"))
                    jobs.append(c["VideoStreamingJob"]("video job", svc, resolution=ns.SourceObject(o["res"]),
                                                       video_duration=sv(ns, o["dur"], "s"),
                                                       refresh_rate=sv(ns, o["fps"], "1/s"), data_stored=sv(ns, 0, "MB")))
                if with_plain:
                    jobs.append(c["Job"].from_defaults("plain job", server=srv))
                return usage(ns, jobs), jobs[0], srv
            system, job, srv = build()
            w, h = map(int, re.search(r"\((\d+)\s*x\s*(\d+)\)", res).groups())
            bitrate = base(ns, job.dynamic_bitrate, "bit/s")
            data = base(ns, job.data_transferred, "bit")
            if w * h * bpp_milli * fps < 2 ** 30 and w * h * bpp_milli * fps // 1000 * dur_s < 2 ** 30:
                events.append({"tid": tid, "seq": 0, "ev": "VideoRule", "resolution": res, "pixels": w * h,
                               "bpp_milli": bpp_milli, "fps": fps, "dur_s": dur_s, "bitrate_bps": int(round(bitrate)),
                               "data_bit": int(round(data)), "reqdur_s": int(round(base(ns, job.request_duration, "s"))),
                               "ram_mb": int(round(base(ns, job.ram_needed, "MB"))), "buffer_mb": buffer_mb})
            lhs, rhs, e = seven_digits(base(ns, job.compute_needed, "cpu_core"), cost * bitrate / 8e9)
            events.append({"tid": tid, "seq": 1, "ev": "Approx", "rule": "video-cpu = cost x bitrate", "lhs": lhs, "rhs": rhs, "exp": e})
            lhs, rhs, e = seven_digits(data, w * h * (bpp_milli / 1000) * fps * dur_s)
            events.append({"tid": tid, "seq": 2, "ev": "Approx", "rule": "video-data = pixels x bpp x fps x duration",
                           "lhs": lhs, "rhs": rhs, "exp": e})
            events.append(rule_event(tid, 5, "video-cpu", base(ns, job.compute_needed, "cpu_core"), cost=cost, bitrate=bitrate))
            events.append(rule_event(tid, 6, "video-data", data, pixels=w * h, bpp=bpp_milli / 1000, fps=fps, duration=dur_s))
            derived = {"dt": ns.SourceValue(job.data_transferred.value), "dur": ns.SourceValue(job.request_duration.value),
                       "cpu": ns.SourceValue(job.compute_needed.value), "ram": ns.SourceValue(job.ram_needed.value)}
            twin, _j, _s = build(plain_twin=True, overrides={"derived": derived})
            events.append({"tid": tid, "seq": 3, "ev": "Twin", "builder": "VideoStreaming" + ("+plain-job" if with_plain else ""),
                           "differs": differing(footprints(ns, system), footprints(ns, twin))})
            # refresh of derived parameters when a builder input changes
            edits = [("video_duration", lambda: setattr(job, "video_duration", sv(ns, dur_s * 2, "s")), {"dur": dur_s * 2}),
                     ("refresh_rate", lambda: setattr(job, "refresh_rate", sv(ns, fps * 2, "1/s")), {"fps": fps * 2}),
                     ("resolution", lambda: setattr(job, "resolution", ns.SourceObject(resolutions[(resolutions.index(res) + 1) % len(resolutions)])),
                      {"res": resolutions[(resolutions.index(res) + 1) % len(resolutions)]}),
                     ("bits_per_pixel", lambda: setattr(job.service, "bits_per_pixel", sv(ns, bpp_milli / 500, "dimensionless")),
                      {"bpp": bpp_milli / 500}),
                     ("ram_buffer_per_user", lambda: setattr(job.service, "ram_buffer_per_user", sv(ns, buffer_mb * 3, "MB")),
                      {"buf": buffer_mb * 3}),
                     ("base_ram_consumption", lambda: setattr(job.service, "base_ram_consumption", sv(ns, base_gb + 3, "GB")),
                      {"base": base_gb + 3})]
            name, do, over = rng.choice(edits) if tier == "quick" else edits[tid % len(edits)]
            do()
            fresh, _j, _s = build(overrides=over)
            events.append({"tid": tid, "seq": 4, "ev": "Refresh", "builder": "VideoStreaming", "input": name,
                           "differs": differing(footprints(ns, system), footprints(ns, fresh))})
    return events, tid


def webapp_events(ns, rng, tid0, tier):
    c = ns.classes
    from efootprint.builders.services import web_application as wa
    events, tid = [], tid0
    techs = wa.get_ecobenchmark_technologies()
    details = wa.get_implementation_details()
    combos = [(t, d) for t in techs for d in details]
    rng.shuffle(combos)
    for tech, det in (combos if tier == "thorough" else combos[:8]):
        row = wa.ECOBENCHMARK_DF[(wa.ECOBENCHMARK_DF["service"] == tech) & (wa.ECOBENCHMARK_DF["use_case"] == det)]
        if len(row) == 0:
            continue
        row = row.iloc[0]
        tid += 1

        def build(tech=tech, det=det, plain=None):
            srv = plain_server(ns)
            if plain:
                job = c["Job"]("web job", srv, data_transferred=sv(ns, 2.2, "MB"), data_stored=sv(ns, 100, "kB"),
                               request_duration=plain["dur"], compute_needed=plain["cpu"], ram_needed=plain["ram"])
            else:
                svc = c["WebApplication"]("web app", srv, technology=ns.SourceObject(tech))
                job = c["WebApplicationJob"]("web job", svc, data_transferred=sv(ns, 2.2, "MB"), data_stored=sv(ns, 100, "kB"),
                                             implementation_details=ns.SourceObject(det))
            return usage(ns, [job, c["Job"].from_defaults("plain job", server=srv)]), job
        system, job = build()
        for rule, got, want in (("webapp-cpu = table row", base(ns, job.compute_needed, "cpu_core"), float(row["avg_cpu_core_per_request"])),
                                ("webapp-ram = table row", base(ns, job.ram_needed, "MB"), float(row["avg_ram_per_request_in_MB"]))):
            lhs, rhs, e = seven_digits(got, want)
            events.append({"tid": tid, "seq": len(events), "ev": "Approx", "rule": rule, "lhs": lhs, "rhs": rhs, "exp": e})
        plain = {"dur": ns.SourceValue(job.request_duration.value), "cpu": ns.SourceValue(job.compute_needed.value),
                 "ram": ns.SourceValue(job.ram_needed.value)}
        twin, _ = build(plain=plain)
        events.append({"tid": tid, "seq": 100, "ev": "Twin", "builder": "WebApplication",
                       "differs": differing(footprints(ns, system), footprints(ns, twin))})
        other_tech = rng.choice([t for t in techs if t != tech])
        if len(wa.ECOBENCHMARK_DF[(wa.ECOBENCHMARK_DF["service"] == other_tech) & (wa.ECOBENCHMARK_DF["use_case"] == det)]):
            job.service.technology = ns.SourceObject(other_tech)
            fresh, _ = build(tech=other_tech)
            events.append({"tid": tid, "seq": 101, "ev": "Refresh", "builder": "WebApplication", "input": "technology",
                           "differs": differing(footprints(ns, system), footprints(ns, fresh))})
    return events, tid


def cloud_events(ns, rng, tid0, tier):
    c = ns.classes
    from efootprint.builders.hardware import boavizta_cloud_server as bcs
    from efootprint.builders.hardware.boaviztapi_utils import call_boaviztapi
    events, tid = [], tid0
    cond = bcs.instance_types_conditional_list_values_dict["conditional_list_values"]
    combos = [(p.value, it.value) for p, its in cond.items() for it in its]
    rng.shuffle(combos)
    for provider, itype in (combos[:300] if tier == "thorough" else combos[:6]):
        same = [it for p, it in combos if p == provider and it != itype]
        tid += 1

        def build(itype=itype, plain=None):
            sto = c["Storage"].from_defaults("storage")
            if plain:
                srv = c["Server"].from_defaults("server", storage=sto, carbon_footprint_fabrication=plain["fab"],
                                                power=plain["power"], ram=plain["ram"], compute=plain["compute"],
                                                average_carbon_intensity=sv(ns, 0.233, "kg/kWh"), idle_power=sv(ns, 0, "W"),
                                                base_ram_consumption=sv(ns, 0, "GB"), base_compute_consumption=sv(ns, 0, "cpu_core"))
            else:
                srv = c["BoaviztaCloudServer"].from_defaults("server", storage=sto, provider=ns.SourceObject(provider),
                                                             instance_type=ns.SourceObject(itype))
            job = c["Job"].from_defaults("ram bound job", server=srv, ram_needed=sv(ns, 3, "GB"))
            return usage(ns, [job]), srv
        try:
            system, srv = build()
            resp = call_boaviztapi(url="https://api.boavizta.org/v1/cloud/instance", params={"provider": provider, "instance_type": itype})
        except Exception:
            continue
        for rule, got, want in (("cloud-ram = API memory", base(ns, srv.ram, "GB"), float(resp["verbose"]["memory"]["value"])),
                                ("cloud-compute = API vcpu", base(ns, srv.compute, "cpu_core"), float(resp["verbose"]["vcpu"]["value"])),
                                ("cloud-power = API avg_power", base(ns, srv.power, "W"), float(resp["verbose"]["avg_power"]["value"])),
                                ("cloud-fabrication = API embedded gwp", base(ns, srv.carbon_footprint_fabrication, "kg"),
                                 float(resp["impacts"]["gwp"]["embedded"]["value"]))):
            lhs, rhs, e = seven_digits(got, want)
            events.append({"tid": tid, "seq": len(events), "ev": "Approx", "rule": rule, "lhs": lhs, "rhs": rhs, "exp": e})
        plain = {"fab": ns.SourceValue(srv.carbon_footprint_fabrication.value), "power": ns.SourceValue(srv.power.value),
                 "ram": ns.SourceValue(srv.ram.value), "compute": ns.SourceValue(srv.compute.value)}
        twin, _ = build(plain=plain)
        events.append({"tid": tid, "seq": 100, "ev": "Twin", "builder": "BoaviztaCloudServer",
                       "differs": differing(footprints(ns, system), footprints(ns, twin))})
        if same:
            other = rng.choice(same)
            try:
                srv.instance_type = ns.SourceObject(other)
                fresh, _ = build(itype=other)
                events.append({"tid": tid, "seq": 101, "ev": "Refresh", "builder": "BoaviztaCloudServer", "input": "instance_type",
                               "differs": differing(footprints(ns, system), footprints(ns, fresh))})
            except Exception:
                pass
    return events, tid


def ecologits_table():
    """(provider, model name) -> (active, total) parameters in billions, read from the EcoLogits data file itself: a number, a
    range (its middle), or a mixture of experts with its own total and active counts"""
    import json as _json, os as _os, ecologits as _eco
    data = _json.load(open(_os.path.join(_os.path.dirname(_eco.__file__), "data", "models.json")))

    def mid(x):
        return (x["min"] + x["max"]) / 2 if isinstance(x, dict) else x
    table = {}
    for m in data["models"]:
        par = m["architecture"]["parameters"]
        if isinstance(par, dict) and "total" in par:
            table[(m["provider"], m["name"])] = (mid(par["active"]), mid(par["total"]))
        else:
            table[(m["provider"], m["name"])] = (mid(par), mid(par))
    for a in data.get("aliases", []):
        key = (a["provider"], a["alias"])
        if (a["provider"], a["name"]) in table:
            table[(a["provider"], a["alias"])] = table[(a["provider"], a["name"])]
    return table


def genai_events(ns, rng, tid0, tier):
    c = ns.classes
    events, tid = [], tid0
    cond = c["GenAIModel"].conditional_list_values()["model_name"]["conditional_list_values"]
    combos = [(p.value, m.value) for p, ms in cond.items() for m in ms]
    rng.shuffle(combos)
    try:
        table = ecologits_table()
    except Exception as ex:   # noqa
        raise MachineryError(f"the EcoLogits data file cannot be read independently: {ex!r}")
    # mixtures of experts (total and active parameters differ) first: two of them in every run
    moe = [x for x in combos if x in table and table[x][0] != table[x][1]]
    combos = moe[:2] + [x for x in combos if x not in moe[:2]]
    for provider, model in (combos[:60] if tier == "thorough" else combos[:6]):
        tid += 1
        tokens = rng.choice([100, 1000, 2500])

        def build(tokens=tokens):
            gpu = c["GPUServer"].from_defaults("gpu server", storage=c["Storage"].from_defaults("storage"),
                                               compute=sv(ns, 64, "gpu"))
            svc = c["GenAIModel"].from_defaults("genai", server=gpu, provider=ns.SourceObject(provider),
                                                model_name=ns.SourceObject(model))
            job = c["GenAIJob"]("genai job", svc, output_token_count=sv(ns, tokens, "dimensionless"))
            return usage(ns, [job]), job, svc, gpu
        try:
            system, job, svc, gpu = build()
        except Exception:
            continue
        active, total = base(ns, svc.active_params, "dimensionless"), base(ns, svc.total_params, "dimensionless")
        bits, factor = base(ns, svc.nb_of_bits_per_parameter, "dimensionless"), base(ns, svc.llm_memory_factor, "dimensionless")
        alpha, beta = base(ns, svc.gpu_latency_alpha, "s"), base(ns, svc.gpu_latency_beta, "s")
        bpt = base(ns, svc.bits_per_token, "dimensionless")
        rules = [("genai-token-weights = tokens x bits per token", base(ns, job.output_token_weights, "bit"), tokens * bpt),
                 ("genai-data-transferred = 100 kB + weights", base(ns, job.data_transferred, "bit"), 800000 + tokens * bpt),
                 ("genai-data-stored = 100 kB + weights", base(ns, job.data_stored, "bit"), 800000 + tokens * bpt),
                 ("genai-duration = tokens x (alpha x active + beta)", base(ns, job.request_duration, "s"), tokens * (alpha * active + beta)),
                 ("genai-gpus = factor x active x bits / RAM per GPU", base(ns, job.compute_needed, "gpu"),
                  factor * active * bits / base(ns, gpu.ram_per_gpu, "bit/gpu")),
                 ("genai-base-ram = factor x total x bits", base(ns, svc.base_ram_consumption, "bit"), factor * total * bits)]
        if (provider, model) in table:
            rules += [("genai-active-params = EcoLogits table row", active, table[(provider, model)][0] * 1e9),
                      ("genai-total-params = EcoLogits table row", total, table[(provider, model)][1] * 1e9)]
        for rule, got, want in rules:
            lhs, rhs, e = seven_digits(got, want)
            events.append({"tid": tid, "seq": len(events), "ev": "Approx", "rule": rule, "lhs": lhs, "rhs": rhs, "exp": e})
        f = dict(tokens=tokens, bits_per_token=bpt, alpha=alpha, beta=beta, active=active, total=total, factor=factor, bits=bits,
                 ram_per_gpu=base(ns, gpu.ram_per_gpu, "bit/gpu"))
        for rule, got in (("genai-token-weights", base(ns, job.output_token_weights, "bit")),
                          ("genai-data-transferred", base(ns, job.data_transferred, "bit")),
                          ("genai-data-stored", base(ns, job.data_stored, "bit")),
                          ("genai-duration", base(ns, job.request_duration, "s")),
                          ("genai-gpus", base(ns, job.compute_needed, "gpu")),
                          ("genai-base-ram", base(ns, svc.base_ram_consumption, "bit"))):
            events.append(rule_event(tid, 200 + len(events), rule, got, **f))
        job.output_token_count = sv(ns, tokens * 2, "dimensionless")
        fresh, *_ = build(tokens=tokens * 2)
        events.append({"tid": tid, "seq": 101, "ev": "Refresh", "builder": "GenAIJob", "input": "output_token_count",
                       "differs": differing(footprints(ns, system), footprints(ns, fresh))})
        # several builder inputs changed in ONE update (the way to change the provider: provider and model together), and an input
        # edited after the service has been moved to another server: the derived parameters must follow as for a single edit
        def build2(provider2, model2, tokens2):
            gpu2 = c["GPUServer"].from_defaults("gpu server", storage=c["Storage"].from_defaults("storage"), compute=sv(ns, 64, "gpu"))
            svc2 = c["GenAIModel"].from_defaults("genai", server=gpu2, provider=ns.SourceObject(provider2),
                                                 model_name=ns.SourceObject(model2))
            return usage(ns, [c["GenAIJob"]("genai job", svc2, output_token_count=sv(ns, tokens2, "dimensionless"))])
        others = [(p2, m2) for p2, m2 in combos if (p2, m2) != (provider, model)]
        same_provider = [m2 for p2, m2 in others if p2 == provider]
        scenarios = [("provider+model_name(one update)", rng.choice(others), tokens * 2, False)]
        if same_provider:
            scenarios.append(("model_name+output_token_count(one update)", (provider, rng.choice(same_provider)), tokens * 3, False))
            scenarios.append(("model_name(after the service was moved to another server)", (provider, rng.choice(same_provider)), tokens * 2, True))
        for k, (label, (p2, m2), tok2, moved) in enumerate(scenarios):
            try:
                system, job, svc, gpu = build(tokens=tokens * 2)
                if moved:
                    svc.server = c["GPUServer"].from_defaults("gpu server 2", storage=c["Storage"].from_defaults("storage 2"),
                                                              compute=sv(ns, 64, "gpu"))
                    svc.model_name = ns.SourceObject(m2)
                else:
                    changes = []
                    if p2 != provider:
                        changes.append([svc.provider, ns.SourceObject(p2)])
                    changes.append([svc.model_name, ns.SourceObject(m2)])
                    if tok2 != tokens * 2:
                        changes.append([job.output_token_count, sv(ns, tok2, "dimensionless")])
                    ns.ModelingUpdate(changes)
                d = differing(footprints(ns, system), footprints(ns, build2(p2, m2, tok2)))
            except Exception as ex:   # noqa
                d = [[f"raised {type(ex).__name__}", str(ex)[:100]]]
            events.append({"tid": tid, "seq": 110 + k, "ev": "Refresh", "builder": "GenAIModel", "input": label, "differs": d})
    return events, tid


def relink_servers(ns, kind, **storage_kw_makers):
    c = ns.classes

    class _Fresh(dict):         # every storage gets value objects of its own
        def keys(self):
            return storage_kw_makers.keys()

        def __getitem__(self, k):
            return storage_kw_makers[k]()
    storage_kw = _Fresh()
    if kind == "GenAIModel":
        mk = lambda n, ram: c["GPUServer"].from_defaults(n, storage=c["Storage"].from_defaults("storage " + n, **storage_kw),
                                                         compute=sv(ns, 64, "gpu"), ram_per_gpu=sv(ns, ram, "GB/gpu"))
        return mk("server A", 80), mk("server B", 40)
    return (c["Server"].from_defaults("server A", storage=c["Storage"].from_defaults("storage", **storage_kw)),
            c["Server"].from_defaults("server B", storage=c["Storage"].from_defaults("storage B", **storage_kw), ram=sv(ns, 64, "GB")))


def relink_build(ns, kind, job_on, svc1_on, scale=1, **storage_kw):
    # storage_kw: attribute -> function returning a new value object
    """services 1 and 2 (2 on server B, without job unless job_on == 2); the job on service job_on; service 1 on svc1_on"""
    c = ns.classes
    a, b = relink_servers(ns, kind, **storage_kw)
    svc_cls, job_cls = {"VideoStreaming": ("VideoStreaming", "VideoStreamingJob"), "WebApplication": ("WebApplication", "WebApplicationJob"),
                        "GenAIModel": ("GenAIModel", "GenAIJob")}[kind]
    s1 = c[svc_cls].from_defaults("service 1", server=a if svc1_on == "A" else b)
    s2 = c[svc_cls].from_defaults("service 2", server=b)
    job = c[job_cls].from_defaults("service job", service=s1 if job_on == 1 else s2)
    if kind != "GenAIModel":            # both servers stay in the system whatever is moved
        keep = c["Job"].from_defaults("plain job A", server=a)
        keep_b = c["Job"].from_defaults("plain job B", server=b)
    else:                               # a GPU server only runs GPU jobs
        keep = c[job_cls].from_defaults("genai job A", service=c[svc_cls].from_defaults("service 0", server=a))
        keep_b = c[job_cls].from_defaults("genai job B", service=c[svc_cls].from_defaults("service 3", server=b))
    return usage(ns, [job, keep, keep_b], scale=scale), job, s1, s2, a, b


def relink_events(ns, rng, tid0, tier):
    """the links of the builders are inputs too: a service job moved to another service (which has no job yet and runs on another
    server), a service moved to another server -- the live model must equal the model built that way from scratch"""
    c = ns.classes
    events, tid = [], tid0

    build = lambda kind, job_on, svc1_on: relink_build(ns, kind, job_on, svc1_on)
    for kind in ("VideoStreaming", "WebApplication", "GenAIModel"):
        for what in ("job.service", "service.server"):
            tid += 1
            try:
                system, job, s1, s2, a, b = build(kind, 1, "A")
                if what == "job.service":
                    job.service = s2
                    fresh = build(kind, 2, "A")[0]
                else:
                    s1.server = b
                    fresh = build(kind, 1, "B")[0]
                d = differing(footprints(ns, system), footprints(ns, fresh))
            except Exception as ex:   # noqa
                d = [[f"raised {type(ex).__name__}", str(ex)[:100]]]
            events.append({"tid": tid, "seq": 0, "ev": "Refresh", "builder": kind, "input": what, "differs": d})
    return events, tid


def service_relink_events(ns, rng, tier):
    """sequences of link changes of the service layer on live systems, with the object chain the code really built (hook 'chains'):
    validated by TLC against EFServices (Trace_Services)"""
    import copy
    log = efx.EventLog(ns)
    events, tid, raised = [], 0, 0
    for kind in ("VideoStreaming", "WebApplication", "GenAIModel"):
        for _trial in range(2 if tier == "quick" else 12):
            tid += 1
            system, job, s1, s2, a, b = relink_build(ns, kind, 1, "A")
            jobs = {}
            for up in system.usage_patterns:
                for step in up.usage_journey.uj_steps:
                    for j in step.jobs:
                        jobs[j.name] = j
            services = {x.name: x for x in [s1, s2] + [j.service for j in jobs.values() if hasattr(j, "service")]}
            servers = {a.name: a, b.name: b}
            S = {"servers": sorted(servers), "services": sorted(services),
                 "sjobs": sorted(n for n, j in jobs.items() if hasattr(j, "service")),
                 "pjobs": sorted(n for n, j in jobs.items() if not hasattr(j, "service")),
                 "calc": sorted(services) if kind == "GenAIModel" else [],
                 "srvOf": {n: x.server.name for n, x in services.items()},
                 "svcOf": {n: j.service.name for n, j in jobs.items() if hasattr(j, "service")},
                 "pserver": {n: j.server.name for n, j in jobs.items() if not hasattr(j, "service")},
                 "stoOf": {n: v.storage.name for n, v in servers.items()}}
            for seq in range(3 if tier == "quick" else 5):
                moves = [(j, "service", S["svcOf"][j], x) for j in S["sjobs"] for x in S["services"] if x != S["svcOf"][j]] + \
                        [(x, "server", S["srvOf"][x], v) for x in S["services"] for v in S["servers"] if v != S["srvOf"][x]]
                obj, attr, old, new = rng.choice(moves)
                log.clear()
                try:
                    setattr(jobs[obj] if attr == "service" else services[obj], attr, services[new] if attr == "service" else servers[new])
                except Exception as ex:   # noqa: a move the code refuses (capacity) ends this sequence
                    raised += 1
                    events.append({"tid": tid, "seq": seq, "ev": "RelinkRaised", "kind": kind, "exc": type(ex).__name__})
                    break
                chain = []
                for r in log.find("chains"):
                    chain += r["obj_chain"]
                events.append({"tid": tid, "seq": seq, "ev": "Relink", "kind": kind, "S": copy.deepcopy(S),
                               "ch": {"obj": obj, "old": old, "new": new}, "attr": attr, "obj_chain": chain, "differs": []})
                (S["svcOf"] if attr == "service" else S["srvOf"])[obj] = new
    log.close()
    return events, raised


SERVICES_CFG = """SPECIFICATION Spec
CONSTANTS
  Servers = {"v1", "v2"}
  Services = {"s1", "s2", "s3"}
  SJobs = {"j1", "j2"}
  PJobs = {"p1"}
  FixHolder = %s
  ListsServer = %s
INVARIANT Covers
CHECK_DEADLOCK FALSE
"""


def run_services_model(out, wd):
    """MC_Services: the object chain of every link change of the service layer covers what reads the change, for every topology of
    a small universe; without the holder (before repair 54f9d99) or without a service listing its server TLC must find a counterexample"""
    res = tlc.run_tlc(wd, "MC_Services", SERVICES_CFG % ("TRUE", "TRUE"), workers=8, timeout=900)
    tlc.require_clean(res, "MC_Services")
    out.add_tlc(res, "MC_Services: every topology of 2 servers, 3 services, 2 service jobs, 1 plain job x every re-pointed link: Covers",
                exhaustive=res.completed)
    if res.error:
        out.violation("model:" + res.error, {"tlc_output_tail": res.out[-3000:]})
    for fix, lists, what in (("FALSE", "TRUE", "the holder of the link left out of the chain"), ("TRUE", "FALSE", "a service not listing its server")):
        r = tlc.run_tlc(wd, "MC_Services", SERVICES_CFG % (fix, lists), workers=8, timeout=900)
        if not (r.error and "Covers" in r.out):
            raise MachineryError(f"MC_Services did not produce the expected counterexample for: {what}")


def run(tier, out):
    wd = work_dir("c17")
    try:
        tlc.stage_specs(wd)
        ns = efx.load()
        rng = random.Random(seed_from_env() * 13 + 1)
        events, tid = [], 0
        counts = {}
        for fn in (video_events, webapp_events, cloud_events, genai_events, relink_events):
            evs, tid = fn(ns, rng, tid, tier)
            counts[fn.__name__] = len(evs)
            events += evs
        for k, e in enumerate(events):
            e["seq"] = k
            out.nontrivial.add((e["tid"], e["ev"], e.get("rule") or e.get("builder")))
        trace = wd + "/c17.ndjson"
        tracecheck.write_trace(trace, events, keys=sorted({k for e in events for k in e}))
        fails, _n, res2 = tracecheck.validate(wd, "Trace_Builders", trace, {}, timeout=3000)
        out.add_tlc(res2, "Trace_Builders on builder scenarios")
        out.traces += tid
        out.evaluations += len(events)
        by = {(e["tid"], e["seq"]): e for e in events}
        for t, s, clause, data in fails:
            e = by.get((t, s), {})
            out.violation(clause, {"spec_says": data[:1200], "event": {k: v for k, v in e.items() if k != "differs"}})
        # the service layer's links: model (MC_Services) and recorded link changes (Trace_Services)
        run_services_model(out, wd)
        sev, n_raised = service_relink_events(ns, rng, tier)
        strace = wd + "/c17_services.ndjson"
        tracecheck.write_trace(strace, sev, keys=sorted({k for e in sev for k in e}))
        sfails, snotes, res3 = tracecheck.validate(wd, "Trace_Services", strace, {}, timeout=3000)
        out.add_tlc(res3, "Trace_Services on recorded link changes of services and service jobs")
        out.evaluations += len(sev)
        sby = {(e["tid"], e["seq"]): e for e in sev}
        for e in sev:
            if e["ev"] == "Relink":
                out.nontrivial.add(("relink", e["kind"], e["attr"], e["tid"], e["seq"]))
        for t, s_, clause, data in sfails:
            e = sby.get((t, s_), {})
            out.violation(clause + ":" + e.get("kind", "?") + "." + e.get("attr", "?"),
                          {"spec_says": data[:1200], "event": {k: v for k, v in e.items() if k != "S"}, "S": e.get("S")})
        note_kinds = {}
        for _t, _s, clause, _d in snotes:
            note_kinds[clause] = note_kinds.get(clause, 0) + 1
        counts["service_relink_events"] = len([e for e in sev if e["ev"] == "Relink"])
        out.extra.update({"service_link_changes_validated": counts["service_relink_events"], "service_link_changes_refused": n_raised,
                          "service_chain_divergence_notes": note_kinds})
        for e in events[:5]:
            out.sample(e)
        out.extra.update({"rule": "a case = one rule instance, one builder/plain twin pair or one refreshed input; distinct by "
                                  "(scenario, rule or builder)", "events_per_builder_family": counts})
        out.assumptions += ["web application and cloud server: the benchmark table row / API response is read independently "
                            "and treated as an input of the rule", "generative AI rules are compared to 7 significant digits",
                            "a GenAI job cannot be written as a plain Job (GPU compute), so it has rules and refresh but no twin"]
        if min(counts.values()) == 0:
            raise MachineryError(f"vacuous run: a builder family produced no event: {counts}")
    finally:
        cleanup(wd)


def replay(path, out):
    run("quick", out)
