"""C02 -- the system footprint accounts for every component exactly once.

1. TLC: theorems on EFNumeric (MC_Numeric, families sizing/totals): every energy footprint is the energy times the
   carbon intensity that applies (server: its own, storage: its server's, network: each usage pattern's country,
   devices: the country), footprints are non-negative when no job deletes data.
2. conformance: real systems from seeded lattice inputs with every sharing pattern (same server / storage /
   network / country / device / journey used by several usage patterns, several time zones and time spans):
   every footprint value compared exactly with EFNumeric; then the hourly system total, the components the code
   lists in its per-object views and the per-category / summed-over-period views are read (in mg) and TLC checks
   that the components are exactly the distinct servers, storages, networks and usage patterns of the system
   (EFCore), each once, that the total is their sum at every hour, that all views agree, finiteness and sign.
"""
from .. import efx, numcheck, tlc
from ..common import work_dir, cleanup, seed_from_env, MachineryError
from .. import gen

FOOTPRINT_KINDS = ["dev_energy4", "dev_efp4", "dev_fab4", "net_fp", "srv_fab480", "srv_energy480", "srv_efp480",
                   "sto_fab", "sto_energy_cap", "sto_efp_cap"]


def run(tier, out):
    wd = work_dir("c02")
    try:
        tlc.stage_specs(wd)
        numcheck.run_theorems(out, wd, "totals", numcheck.INVARIANTS["totals"], large=(tier == "thorough"))
        ns = efx.load()
        base = seed_from_env() * 100000
        n_models = 150 if tier == "quick" else 3000
        events, models = numcheck.random_events(ns, range(base, base + n_models))
        totals, shapes = [], set()
        for ev in list(events):
            if ev["raised"] != "none":
                continue
            model, I = models[ev["tid"]]
            shapes |= gen.shape_tags(model)
            live = efx.build(ns, model)
            t = numcheck.totals_event(ns, ev["tid"], 1, model, I, live)
            t["seed"] = ev["seed"]
            totals.append(t)
        events += totals
        # the same after a history: a simulation switched on and off, then an edit of a carbon intensity, a PUE, a network
        # intensity or the traffic -- each footprint must still be the energy times the intensity that applies NOW
        n_hist = 40 if tier == "quick" else 500
        edited = numcheck.edited_events(ns, range(base + 70000, base + 70000 + n_hist), 3,
                                        kinds=("ci", "svci", "net", "pue", "starts", "overload", "overload", "burst", "burst"), simulate=True, with_fixed=True, group_prob=0.35, with_totals=True)
        for e in edited:
            e["tid"] += 3 * 10 ** 6
        events += edited
        fails, _notes, res = numcheck.validate(wd, events, focus=FOOTPRINT_KINDS)
        out.add_tlc(res, "Trace_Numeric: footprint kinds + totals and views")
        out.traces += len(totals)
        out.evaluations += sum(len(e.get("obs", [])) + len(e.get("comps", [])) for e in events)
        for e in totals:
            out.nontrivial.add(("totals", e["seed"]))
        for e in edited:
            if e["ev"] == "Totals":
                out.nontrivial.add(("totals-after-edit", e["seed"], e["seq"]))
        numcheck.judge(out, events, fails)
        for e in totals[:2]:
            out.sample({"seed": e["seed"], "components": [[c["o"], c["part"]] for c in e["comps"]], "views": e["views"],
                        "total_first_hours_mg": e["total"]["v"][:4]})
        out.extra.update({"rule": "a case = one real system built from lattice inputs: footprint values compared exactly "
                                  "with EFNumeric, total / components / views compared in mg; distinct by seed",
                          "sharing_shapes_seen": sorted(shapes), "systems_with_totals": len(totals),
                          "models_observed_after_a_simulation_and_an_edit": len([e for e in edited if e["seq"] > 0 and e["ev"] == "Model"]),
                          "totals_read_on_live_systems_after_an_edit": len([e for e in edited if e["ev"] == "Totals"]),
                          "simulations_toggled_before_edits": numcheck.SKIPPED.get("simulations", 0),
                          "refused_edits_followed_by_an_observation": numcheck.SKIPPED.get("refused", 0),
                          "edits_made_of_two_changes_in_one_update": numcheck.SKIPPED.get("grouped", 0)})
        out.assumptions += ["the hourly total is compared with the sum of components in mg with a slack of 60 mg + one per "
                            "component (the code rounds the total to 1e-4 kg)"]
        if not shapes & {"network-shared", "server-shared-by-jobs", "journey-shared-by-patterns"}:
            raise MachineryError("vacuous run: no sharing topology was generated")
    finally:
        cleanup(wd)


def replay(path, out):
    run("quick", out)
