"""C19 -- results are independent of creation order, identifiers and hashing.

1. TLC: the recomputation chain of the model is built from SETS wherever the code iterates over a set (object chain,
   dependents), and NoStale / FreshAfterCreation hold for every topology (MC_Update): no result depends on an order the
   code does not control.  (Shared run with C01 / C18.)
2. conformance (Trace_Edit, event Sibling): the same abstract model is built several times in the same process (new random
   identifiers each time, hence other set orders), with permuted creation orders, with permuted order-irrelevant lists
   (system.usage_patterns, usage_pattern.devices, jobs of one step), with two jobs carrying the same display name, and in
   sub-processes under other PYTHONHASHSEED values; every calculated value of every variant must equal the reference
   build's.  The same after an edit history replayed on two builds, and after single input edits applied to several builds
   (which must agree with one another and with a system given the value at creation).
"""
import copy
import json
import os
import random
import subprocess
import sys

from .. import efx, gen, tlc, tracecheck
from ..common import work_dir, cleanup, seed_from_env, ROOT, MachineryError
from . import c01


def permuted_order(rng, model):
    names = [n for n in model if not n.startswith("__")]
    rng.shuffle(names)
    return sorted(names, key=lambda n: efx.CLASS_RANK[model[n]["cls"]] if model[n]["cls"] not in ("Device", "Network", "Country", "Storage") else rng.choice([0, 0]))


def shuffle_irrelevant_lists(rng, model):
    m = copy.deepcopy(model)
    for n, d in m.items():
        if n.startswith("__"):
            continue
        if d["cls"] == "System":
            rng.shuffle(d["lst"]["usage_patterns"])
        elif d["cls"] == "UsagePattern":
            rng.shuffle(d["lst"]["devices"])
        elif d["cls"] == "UsageJourneyStep":
            rng.shuffle(d["lst"]["jobs"])
    return m


def values_of(ns, live, model):
    names = sorted(efx.reachable(model))
    return efx.snapshot(ns, live, names), names


def differing(ref, other, names):
    return [list(x) for x in efx.diff(ref, other, names)]


def same_name_variant(rng, model):
    """two distinct jobs of one step carry the same display name but transfer different amounts of data"""
    m = copy.deepcopy(model)
    jobs = efx.names_of(m, "Job")
    if len(jobs) < 2:
        return None
    a, b = jobs[0], jobs[1]
    m[a]["opt"]["display"] = m[b]["opt"]["display"] = "same name"
    m[a]["inp"]["data_transferred"] = [300, "kB"]
    m[b]["inp"]["data_transferred"] = [7000, "kB"]
    steps = efx.names_of(m, "UsageJourneyStep")
    m[steps[0]]["lst"]["jobs"] = [a, b]
    return m, steps[0], a, b


def prepared_model(rng):
    """a seeded model; in one model out of two the jobs that share a storage write and delete data in DIFFERENT units (what
    the storage sums first then depends on the order in which it meets its jobs, which the identifiers decide)"""
    model = gen.random_model(rng)
    reach = efx.reachable(model)
    jobs = [j for j in efx.names_of(model, "Job") if j in reach]
    if len(jobs) >= 3 and rng.random() < 0.7:
        server = model[jobs[0]]["lnk"]["server"]
        for j, mv in zip(jobs, ([200, "kB"], [-0.05, "MB"], [0.0003, "GB"])):
            model[j]["lnk"]["server"] = server
            model[j]["inp"]["data_stored"] = list(mv)
        model[model[server]["lnk"]["storage"]]["inp"]["base_storage_need"] = [1, "TB"]
    return model


def special_model():
    """three jobs on one server and storage: two write data in different units, one deletes; two usage patterns"""
    m = {}
    m["sto1"] = efx.new_obj("Storage", base_storage_need=[1, "TB"])
    m["sv1"] = efx.new_obj("Server", storage="sto1")
    for j, mv in (("j1", [200, "kB"]), ("j2", [-0.05, "MB"]), ("j3", [0.0003, "GB"])):
        m[j] = efx.new_obj("Job", server="sv1", data_stored=mv)
    m["s1"] = efx.new_obj("UsageJourneyStep", jobs=["j1", "j2", "j3"])
    m["s2"] = efx.new_obj("UsageJourneyStep", jobs=["j3", "j1"])
    m["uj1"] = efx.new_obj("UsageJourney", uj_steps=["s1", "s2"])
    m["d1"], m["n1"], m["c1"] = efx.new_obj("Device"), efx.new_obj("Network"), efx.new_obj("Country")
    m["up1"] = efx.new_obj("UsagePattern", usage_journey="uj1", network="n1", country="c1", devices=["d1"], starts=[3, 1, 4, 1, 5])
    m["up2"] = efx.new_obj("UsagePattern", usage_journey="uj1", network="n1", country="c1", devices=["d1"], starts=[2, 7, 1],
                           start="2025-01-01T02:00:00")
    m["sys"] = efx.new_obj("System", usage_patterns=["up1", "up2"])
    return m


def special_model_2():
    """one journey (hence its jobs) used by two usage patterns that have their own network, country and time zone: every
    per-usage-pattern dictionary of the jobs has two entries, which carry the same identifier"""
    m = {}
    m["sto1"] = efx.new_obj("Storage", base_storage_need=[1, "TB"])
    m["sv1"] = efx.new_obj("Server", storage="sto1")
    m["j1"] = efx.new_obj("Job", server="sv1", data_transferred=[2, "MB"])
    m["j2"] = efx.new_obj("Job", server="sv1", data_transferred=[300, "kB"], request_duration=[90, "min"])
    m["s1"] = efx.new_obj("UsageJourneyStep", jobs=["j1", "j2"], user_time_spent=[30, "min"])
    m["s2"] = efx.new_obj("UsageJourneyStep", jobs=["j1"], user_time_spent=[61, "min"])
    m["uj1"] = efx.new_obj("UsageJourney", uj_steps=["s1", "s2"])
    m["d1"] = efx.new_obj("Device")
    m["n1"], m["n2"] = efx.new_obj("Network"), efx.new_obj("Network", bandwidth_energy_intensity=[0.3, "kWh/GB"])
    m["c1"] = efx.new_obj("Country", tz="Europe/Paris")
    m["c2"] = efx.new_obj("Country", tz="Asia/Kolkata", average_carbon_intensity=[400, "g/kWh"])
    m["up1"] = efx.new_obj("UsagePattern", usage_journey="uj1", network="n1", country="c1", devices=["d1"], starts=[3, 1, 4, 1, 5])
    m["up2"] = efx.new_obj("UsagePattern", usage_journey="uj1", network="n2", country="c2", devices=["d1"], starts=[2, 7, 1, 8],
                           start="2025-01-01T05:00:00")
    m["sys"] = efx.new_obj("System", usage_patterns=["up1", "up2"])
    return m


def special_model_3():
    """a usage pattern with three devices, one of which is already amortised (fabrication footprint 0) and one of which draws no
    power; two jobs in one step, one of which transfers nothing"""
    m = {}
    m["sto1"] = efx.new_obj("Storage")
    m["sv1"] = efx.new_obj("Server", storage="sto1")
    m["j1"] = efx.new_obj("Job", server="sv1", data_transferred=[0, "kB"])
    m["j2"] = efx.new_obj("Job", server="sv1", data_transferred=[400, "kB"], data_stored=[0, "kB"])
    m["s1"] = efx.new_obj("UsageJourneyStep", jobs=["j1", "j2"])
    m["uj1"] = efx.new_obj("UsageJourney", uj_steps=["s1"])
    m["d1"] = efx.new_obj("Device", carbon_footprint_fabrication=[0, "kg"])
    m["d2"] = efx.new_obj("Device", power=[0, "W"])
    m["d3"] = efx.new_obj("Device", power=[20, "W"], carbon_footprint_fabrication=[60, "kg"])
    m["n1"], m["c1"] = efx.new_obj("Network"), efx.new_obj("Country")
    m["up1"] = efx.new_obj("UsagePattern", usage_journey="uj1", network="n1", country="c1", devices=["d1", "d2", "d3"],
                           starts=[3, 1, 4, 1, 5])
    m["up2"] = efx.new_obj("UsagePattern", usage_journey="uj1", network="n1", country="c1", devices=["d3", "d1"], starts=[2, 7, 1])
    m["sys"] = efx.new_obj("System", usage_patterns=["up1", "up2"])
    return m


def model_of_seed(seed):
    return {-1: special_model, -2: special_model_2, -3: special_model_3}[seed]() if seed < 0 else prepared_model(random.Random(seed))


def child_dump(seeds):
    """(run in a sub-process) builds the models of the given seeds and prints their projected values"""
    ns = efx.load()
    out = {}
    for seed in seeds:
        model = model_of_seed(seed)
        try:
            live = efx.build(ns, model)
        except Exception as ex:
            out[str(seed)] = {"error": type(ex).__name__}
            continue
        snap, names = values_of(ns, live, model)
        out[str(seed)] = {n: {a: _ser(v) for a, v in snap[n].items()} for n in names}
    print("DUMP" + json.dumps(out))


def _ser(v):
    if v[0] == "H":
        return ["H", list(v[1]), v[2], sorted(v[3].items()), v[4]]
    if v[0] == "D":
        return ["D", {k: _ser(x) for k, x in v[1].items()}]
    return list(v)


def _deser(v):
    if v[0] == "H":
        # hours since the epoch; a time stamp off the hour keeps its fraction (see efx.project_value)
        return ("H", tuple(tuple(x) for x in v[1]), v[2], {(int(h) if float(h).is_integer() else float(h)): x for h, x in v[3]}, v[4])
    if v[0] == "D":
        return ("D", {k: _deser(x) for k, x in v[1].items()})
    if v[0] == "Q":
        return ("Q", tuple(tuple(x) for x in v[1]), v[2])
    return tuple(v)


def run(tier, out):
    wd = work_dir("c19")
    try:
        tlc.stage_specs(wd)
        c01.run_model_check(out, wd, "quick")
        ns = efx.load()
        base = seed_from_env() * 100000
        n_models = 20 if tier == "quick" else 300
        events, tid = [], 0
        refs = {}
        for seed in [-1, -2, -3] + list(range(base, base + n_models)):
            rng = random.Random(seed)
            model = model_of_seed(seed)
            rng.random()
            try:
                live = efx.build(ns, model)
            except Exception:
                continue
            tid += 1
            ref, names = values_of(ns, live, model)
            refs[seed] = (ref, names)
            seq = 0

            def sibling(variant, m, order=None):
                nonlocal seq
                seq += 1
                try:
                    other = efx.build(ns, m, order=order)
                    d = differing(ref, efx.snapshot(ns, other, names), names)
                except Exception as ex:   # noqa
                    d = [[f"build raised {type(ex).__name__}", str(ex)[:80]]]
                events.append({"tid": tid, "seq": seq, "ev": "Sibling", "seed": seed, "variant": variant, "differs": d})
                out.nontrivial.add((seed, variant, seq))
            for k in range(3 if seed >= 0 else 10):
                sibling("identifiers-and-set-order(rebuild)", model)
            for k in range(2):
                sibling("creation-order", model, order=permuted_order(rng, model))
            for k in range(2 if seed >= 0 else 6):
                sibling("order-of-usage-patterns-devices-same-step-jobs", shuffle_irrelevant_lists(rng, model))
            sn = same_name_variant(rng, model)
            if sn:
                m2, step, a, b = sn
                try:
                    l1 = efx.build(ns, m2)
                    r2, n2 = values_of(ns, l1, m2)
                    m3 = copy.deepcopy(m2)
                    m3[step]["lst"]["jobs"] = [b, a]
                    l2 = efx.build(ns, m3)
                    seq += 1
                    events.append({"tid": tid, "seq": seq, "ev": "Sibling", "seed": seed,
                                   "variant": "order-of-same-step-jobs-with-equal-names",
                                   "differs": differing(r2, efx.snapshot(ns, l2, n2), n2)})
                except Exception:
                    pass
            # the same edit history on two builds
            l_a, l_b = efx.build(ns, model), efx.build(ns, model, order=permuted_order(rng, model))
            m_cur = model
            for _ in range(4):
                e = gen.random_edit(rng, m_cur, ["input", "starts", "link", "list", "group"])
                try:
                    efx.apply_edit_live(ns, m_cur, l_a, e)
                    efx.apply_edit_live(ns, m_cur, l_b, e)
                except Exception:
                    break
                m_cur = efx.apply_edit_abstract(m_cur, e)
            nm = sorted(efx.reachable(m_cur))
            seq += 1
            events.append({"tid": tid, "seq": seq, "ev": "Sibling", "seed": seed, "variant": "edit-history-on-two-builds",
                           "differs": differing(efx.snapshot(ns, l_a, nm), efx.snapshot(ns, l_b, nm), nm)})
            # a value given by an edit, on several builds: the builds must agree with one another and with a system that was given
            # the value at creation (what an edit reaches may not depend on which entry a set or a dictionary yields first)
            reach = efx.reachable(model)
            cands = [(n, a) for n in sorted(reach) if model[n]["cls"] in ("Job", "UsageJourneyStep", "Server", "Storage")
                     for a in sorted(model[n]["inp"])]
            rng.shuffle(cands)
            cands.sort(key=lambda x: model[x[0]]["cls"] != "Job")
            builds = [efx.build(ns, model) for _ in range(3 if seed >= 0 else 6)]
            m_cur = model
            for n, a in cands[: (4 if seed >= 0 else 12)]:
                mv = m_cur[n]["inp"][a]
                e = ("input", n, a, [mv[0] * 2 + (1 if mv[0] == 0 else 0), mv[1]])
                try:
                    for b in builds:
                        efx.apply_edit_live(ns, m_cur, b, e)
                except Exception:
                    break
                m_cur = efx.apply_edit_abstract(m_cur, e)
                nm = sorted(efx.reachable(m_cur))
                snaps = [efx.snapshot(ns, b, nm) for b in builds]
                d = []
                for other in snaps[1:]:
                    d += [x for x in differing(snaps[0], other, nm) if x not in d]
                try:
                    at_creation = efx.snapshot(ns, efx.build(ns, m_cur), nm)
                    for sn_ in snaps:
                        d += [x for x in differing(at_creation, sn_, nm) if x not in d]
                except Exception:
                    pass
                seq += 1
                events.append({"tid": tid, "seq": seq, "ev": "Sibling", "seed": seed,
                               "variant": f"value-given-by-an-edit-on-several-builds({model[n]['cls']}.{a})", "differs": d})
                out.nontrivial.add((seed, "edit-on-builds", n, a))
        # other hash seeds, other processes
        hash_seeds = [1, 2] if tier == "quick" else [1, 2, 3, 5, 8, 13, 21, 34]
        seeds = sorted(refs)[: (10 if tier == "quick" else 120)]
        for hs in hash_seeds:
            env = dict(os.environ, PYTHONHASHSEED=str(hs), PYTHONPATH=ROOT)
            p = subprocess.run([sys.executable, "-c", "from harness.props import c19; c19.child_dump(%r)" % seeds],
                               cwd=ROOT, env=env, capture_output=True, text=True, timeout=1800)
            line = next((ln for ln in p.stdout.splitlines() if ln.startswith("DUMP")), None)
            if line is None:
                raise MachineryError(f"sub-process with PYTHONHASHSEED={hs} produced no dump: {p.stderr[-500:]}")
            dump = json.loads(line[4:])
            for seed in seeds:
                ref, names = refs[seed]
                got = dump[str(seed)]
                tid += 1
                if "error" in got:
                    d = [["build raised in sub-process", got["error"]]]
                else:
                    other = {n: {a: _deser(v) for a, v in got[n].items()} for n in got}
                    d = differing(ref, other, names)
                events.append({"tid": tid, "seq": 0, "ev": "Sibling", "seed": seed, "variant": f"hash-seed-and-process({hs})",
                               "differs": d})
                out.nontrivial.add((seed, "hash", hs))
        trace = wd + "/c19.ndjson"
        tracecheck.write_trace(trace, events, keys=("tid", "seq", "ev", "variant", "differs"))
        fails, _n, res2 = tracecheck.validate(wd, "Trace_Edit", trace, {"JFN": "TRUE"}, timeout=3000)
        out.add_tlc(res2, "Trace_Edit on sibling builds")
        out.traces += len(events)
        out.evaluations += len(events)
        by = {(e["tid"], e["seq"]): e for e in events}
        variants = {}
        for e in events:
            variants[e["variant"].split("(")[0]] = variants.get(e["variant"].split("(")[0], 0) + 1
        for t, s, clause, data in fails:
            e = by.get((t, s), {})
            out.violation(clause.split("(")[0], {"spec_says": data[:1500], "seed": e.get("seed"), "variant": e.get("variant")})
        for e in events[:4]:
            out.sample({k: e[k] for k in ("seed", "variant", "differs")})
        out.extra.update({"rule": "a case = one alternative build of a seeded abstract model compared value by value with the "
                                  "reference build; distinct by (seed, variant, repetition)", "variants": variants,
                          "hash_seeds": hash_seeds})
        out.assumptions += ["hash seeds and identifier assignments are sampled (identifiers are random uuid4 prefixes, "
                            "new at every build)", "floats compared at rtol 1e-9 (sums in another order differ in the last bits)"]
    finally:
        cleanup(wd)


def replay(path, out):
    run("quick", out)
