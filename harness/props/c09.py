"""C09 -- explainable quantities obey unit-safe arithmetic.

1. TLC: the algebraic laws on spec/EFQuantity.tla over all pairs of a catalogue of operands (empty, scalars and hourly
   series of three dimensions, overlapping / disjoint / shifted indexes, aware / naive): empty neutral for +, absorbing
   for *, + and * commutative, incompatible dimensions raise, dim(a*b) = dim a + dim b, totals add up, shift keeps totals.
2. conformance: the real operators (+ - * / and reflected forms through operand order, sum, max, abs, ceil, negate,
   shift, element-wise max/min, round, copy, 0 + x) are applied to every pair of a catalogue of real operands
   (same unit / other unit of the same dimension / other dimension, overlapping / disjoint / shifted, aware / naive,
   empty); operands before and after, and the result or the exception, are logged as integers in base units with
   their dimension vector, and TLC requires result = EFQuantity.Apply(op, l, r) and operands physically unchanged.
"""
import itertools
import random

from .. import efx, tlc, tracecheck
from ..common import work_dir, cleanup, seed_from_env, MachineryError


def enc(ns, v):
    """JSON form of a value: integers in base units + dimension vector"""
    if isinstance(v, Exception):
        return {"kind": "X", "exc": type(v).__name__}
    if isinstance(v, ns.EmptyExplainableObject):
        return {"kind": "E"}
    if isinstance(v, ns.ExplainableHourlyQuantities):
        df = v.value
        if not hasattr(df.index, "asi8"):
            return {"kind": "X", "exc": "result-without-a-time-index"}     # e.g. aware and naive hours mixed in one index
        units = df.dtypes.iloc[0].units
        f = efx._base_factor(ns, units)
        vals = []
        for x in df["value"].values._data:
            try:
                y = float(x) * f
            except TypeError:
                return {"kind": "X", "exc": "NaN-in-result"}
            if y != y or y in (float("inf"), float("-inf")):
                return {"kind": "X", "exc": "NaN-in-result"}
            if abs(y - round(y)) > 1e-6 * max(1, abs(y)) or abs(y) >= 2 ** 30:
                return {"kind": "X", "exc": "off-lattice"}
            vals.append(int(round(y)))
        return {"kind": "H", "dim": [[k, int(e)] for k, e in sorted(dict(ns.u.get_dimensionality(units)).items())],
                "h": [int(t) // efx.EPOCH_NS_PER_H for t in df.index.asi8], "vals": vals, "aware": df.index.tz is not None}
    if isinstance(v, ns.ExplainableQuantity):
        y = float(v.value.magnitude) * efx._base_factor(ns, v.value.units)
        if y != y or y in (float("inf"), float("-inf")):
            return {"kind": "X", "exc": "NaN-in-result"}
        if abs(y - round(y)) > 1e-6 * max(1, abs(y)) or abs(y) >= 2 ** 30:
            return {"kind": "X", "exc": "off-lattice"}
        return {"kind": "Q", "dim": [[k, int(e)] for k, e in sorted(dict(ns.u.get_dimensionality(v.value.units)).items())],
                "v": int(round(y))}
    if isinstance(v, (int, float)):
        return {"kind": "N", "v": int(v)}
    raise MachineryError(f"cannot encode {type(v)}")


def scale_of(ns, v):
    """base units per current unit of a value, as an integer fraction"""
    from fractions import Fraction
    if isinstance(v, ns.ExplainableHourlyQuantities):
        units = v.value.dtypes.iloc[0].units
    elif isinstance(v, ns.ExplainableQuantity):
        units = v.value.units
    else:
        return 1, 1
    fr = Fraction(efx._base_factor(ns, units)).limit_denominator(10 ** 6)
    return fr.numerator, fr.denominator


def catalogue(ns):
    u = ns.u

    def hq(vals, start_h, unit, aware):
        x = efx.hourly(ns, vals, f"2025-01-01T{start_h:02d}:00:00", unit)
        if aware:
            x.value.index = x.value.index.tz_localize("UTC")
        return x
    ops = {
        "empty": lambda: ns.EmptyExplainableObject(),
        "12W": lambda: ns.SourceValue(12 * u.W), "4kW": lambda: ns.SourceValue(4 * u.kW), "0W": lambda: ns.SourceValue(0 * u.W),
        "3B": lambda: ns.SourceValue(3 * u.B), "2.5kB": lambda: ns.SourceValue(2.5 * u.kB),
        "H[0.5,-1.5,2.25]kB@0": lambda: hq([0.5, -1.5, 2.25], 0, "kB", True), "6": lambda: ns.SourceValue(6 * u.dimensionless),
        "2h": lambda: ns.SourceValue(2 * u.hour), "2core": lambda: ns.SourceValue(2 * u.cpu_core),
        "H[12,24,36]W@0": lambda: hq([12, 24, 36], 0, "W", True), "H[1,2]kW@1": lambda: hq([1, 2], 1, "kW", True),
        "H[6]W@5": lambda: hq([6], 5, "W", True), "H[12,24,36]W@0naive": lambda: hq([12, 24, 36], 0, "W", False),
        "H[-12,0,12]W@0": lambda: hq([-12, 0, 12], 0, "W", True), "H[3,6]B@0": lambda: hq([3, 6], 0, "B", True),
        # as long as H[12,24,36]W@0 but over other hours (overlapping at one hour / disjoint): same length, different time stamps
        "H[30,6,18]W@2": lambda: hq([30, 6, 18], 2, "W", True), "H[7,9,40]W@7": lambda: hq([7, 9, 40], 7, "W", True),
        "H[2,4,6]@0": lambda: hq([2, 4, 6], 0, "dimensionless", True), "H[4,4]core@2": lambda: hq([4, 4], 2, "cpu_core", True),
    }
    return ops


ALT_UNIT = {"W": "kW", "kW": "W", "B": "kB", "kB": "MB", "hour": "min"}


def prepared(ns, make, how):
    """an operand with a history: 'conv' = its unit was read and it was then converted in place to another unit of the same
    dimension; 'alias' = a value derived from it by adding an empty value had its unit read and was converted"""
    x = make()
    if how == "fresh" or isinstance(x, ns.EmptyExplainableObject):
        return x
    unit = str(x.unit) if hasattr(x, "unit") and not isinstance(x, ns.ExplainableQuantity) else str(x.value.units)
    alt = ALT_UNIT.get({"watt": "W", "kilowatt": "kW", "byte": "B"}.get(unit, unit))
    if alt is None:
        return x
    if how == "conv":
        x.to(ns.u(alt).units)
        return x
    y = x + ns.EmptyExplainableObject()
    _ = getattr(y, "unit", None)
    try:
        y.to(ns.u(alt).units)
    except Exception:   # noqa
        pass
    return x


def attempt(fn):
    try:
        return fn()
    except Exception as ex:   # noqa: the exception is the observation
        return ex


def record(ns, tier, rng):
    cat = catalogue(ns)
    names = sorted(cat)
    events, tid = [], 0
    binops = {"+": lambda a, b: a + b, "-": lambda a, b: a - b, "*": lambda a, b: a * b, "/": lambda a, b: a / b,
              "max": lambda a, b: a.np_compared_with(b, "max"), "min": lambda a, b: a.np_compared_with(b, "min")}
    for (ln, rn), (lprep, rprep) in itertools.product(itertools.product(names, names),
                                                      [("fresh", "fresh"), ("conv", "alias"), ("alias", "conv")]):
        for op, fn in binops.items():
            if op in ("max", "min") and not (ln.startswith(("H", "empty")) and rn.startswith(("H", "empty"))):
                continue
            if op in ("max", "min") and ("naive" in ln) != ("naive" in rn) and not (ln == "empty" or rn == "empty"):
                continue     # positional before the fix, by timestamp after: mixing naive and aware is out of scope
            l, r = prepared(ns, cat[ln], lprep), prepared(ns, cat[rn], rprep)
            if op in ("max", "min") and ln != "empty" and rn != "empty" and \
                    str(l.value.dtypes.iloc[0].units) != str(r.value.dtypes.iloc[0].units):
                continue     # np_compared_with assumes both operands were converted to the same unit
            l0, r0 = enc(ns, l), enc(ns, r)
            res = attempt(lambda: fn(l, r))
            tid += 1
            events.append({"tid": tid, "seq": 0, "ev": "Op", "op": op, "arity": 2, "arg": 0, "names": [ln, rn, lprep, rprep], "sn": 1, "sd": 1, "l": l0,
                           "r": r0, "res": enc(ns, res), "l_after": enc(ns, l), "r_after": enc(ns, r)})
    unops = {"sum": lambda a: a.sum(), "max": None, "abs": lambda a: a.abs(), "ceil": lambda a: a.ceil(),
             "neg": lambda a: -a, "copy": lambda a: a.copy(), "round": lambda a: round(a, 2), "radd0": lambda a: 0 + a,
             "shift": None}
    for n, prep in itertools.product(names, ["fresh", "conv", "alias"]):
        for op, fn in unops.items():
            for arg in ([0, 1, 3, 26] if op == "shift" else [0]):
                a = prepared(ns, cat[n], prep)
                if op in ("sum", "abs", "neg", "shift", "max") and not n.startswith(("H", "empty")):
                    continue
                if op == "neg" and n == "empty":
                    continue
                a0 = enc(ns, a)
                sn, sd = scale_of(ns, a)
                if op == "shift":
                    if n == "empty":
                        continue
                    res = attempt(lambda: a.return_shifted_hourly_quantities(ns.SourceValue(arg * ns.u.hour)))
                elif op == "max":
                    res = attempt(lambda: a.max())
                else:
                    res = attempt(lambda: fn(a))
                tid += 1
                events.append({"tid": tid, "seq": 0, "ev": "Op", "op": op, "arity": 1, "arg": arg, "names": [n, prep], "sn": sn, "sd": sd, "l": a0,
                               "r": {"kind": "E"}, "res": enc(ns, res), "l_after": enc(ns, a), "r_after": {"kind": "E"}})
    # unit conversion in place must keep the physical value
    for n, unit in (("12W", "kW"), ("H[12,24,36]W@0", "kW"), ("3B", "kB"), ("2h", "min")):
        a = cat[n]()
        a0 = enc(ns, a)
        res = attempt(lambda: a.to(ns.u(unit).units))
        tid += 1
        events.append({"tid": tid, "seq": 0, "ev": "Op", "op": "copy", "arity": 1, "arg": 0, "names": [n, "to " + unit], "sn": 1, "sd": 1,
                       "l": a0, "r": {"kind": "E"}, "res": enc(ns, res), "l_after": enc(ns, a), "r_after": {"kind": "E"}})
    return events


def run(tier, out):
    wd = work_dir("c09")
    try:
        tlc.stage_specs(wd)
        cfg = "SPECIFICATION Spec\n" + "".join(f"INVARIANT {i}\n" for i in (
            "EmptyNeutralForAddition", "EmptyAbsorbingForMultiplication", "AdditionCommutes", "MultiplicationCommutes",
            "IncompatibleDimensionsRaise", "ProductDimension", "TotalsAddUp", "ShiftKeepsTotal", "CompareBounds"))
        res = tlc.run_tlc(wd, "MC_Quantity", cfg, workers=8, timeout=1800)
        tlc.require_clean(res, "MC_Quantity")
        out.add_tlc(res, "MC_Quantity: algebraic laws on all operand pairs", exhaustive=res.completed)
        if res.error:
            out.violation("model:" + res.error, {"tlc_output_tail": res.out[-4000:]})
        ns = efx.load()
        events = record(ns, tier, random.Random(seed_from_env()))
        trace = wd + "/c09.ndjson"
        tracecheck.write_trace(trace, events, keys=("tid", "seq", "ev", "op", "arity", "arg", "sn", "sd", "l", "r", "res", "l_after", "r_after"))
        fails, _n, res2 = tracecheck.validate(wd, "Trace_Quantity", trace, {})
        out.add_tlc(res2, "Trace_Quantity on recorded operations")
        out.traces += len(events)
        out.evaluations += len(events)
        by = {e["tid"]: e for e in events}
        per_op = {}
        for e in events:
            per_op[e["op"]] = per_op.get(e["op"], 0) + 1
            out.nontrivial.add((e["op"], tuple(e["names"]), e["arg"]))
        for t, s, clause, data in fails:
            e = by.get(t, {})
            out.violation(clause + ":" + e.get("l", {}).get("kind", "?") + e.get("r", {}).get("kind", "?"),
                          {"operands": e.get("names"), "op": e.get("op"), "spec_says": data[:1500], "result": e.get("res")})
        for e in events[100:104]:
            out.sample({k: e[k] for k in ("op", "names", "l", "r", "res")})
        out.extra.update({"rule": "a case = one real operation on catalogue operands; distinct by (operator, operands, argument)",
                          "operations_per_operator": per_op,
                          "raised": sum(1 for e in events if e["res"]["kind"] == "X")})
        out.assumptions += ["operand magnitudes are chosen so that results are integers in base units; quotients that are "
                            "not exact and subtraction of series with different indexes are not judged",
                            "element-wise max/min is exercised on operands already expressed in the same unit (as the "
                            "library does)"]
    finally:
        cleanup(wd)


def replay(path, out):
    run("quick", out)
