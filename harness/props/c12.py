"""C12 -- footprints respond to each driver in the documented proportion.

1. TLC: theorem Proportional on EFNumeric (MC_Numeric, family "scale"): for each driver and k in {2, 3}, the model with
   the driver multiplied by k has exactly the driven footprints multiplied by k and the others unchanged.
2. conformance: pairs of real systems from seeded lattice inputs that differ by one driver multiplied by k (PUE,
   server / country carbon intensity, bandwidth energy intensity, data transferred, device power, fabrication
   footprints, inverse lifespans, inverse usage fraction, all traffic).  Both are compared exactly with EFNumeric,
   and TLC checks the relation on the observed values: which observations depend on the multiplied inputs is decided
   by EFCore's Reads; those of a driven kind must be multiplied by k, every observation that does not depend on them
   must be unchanged.
"""
import random

from .. import efx, lattice, numcheck, tlc
from ..common import work_dir, cleanup, seed_from_env, MachineryError


def run(tier, out):
    wd = work_dir("c12")
    try:
        tlc.stage_specs(wd)
        numcheck.run_theorems(out, wd, "scale", numcheck.INVARIANTS["scale"], large=(tier == "thorough"))
        ns = efx.load()
        base = seed_from_env() * 100000
        n_models = 30 if tier == "quick" else 600
        events, per_driver, n_live = [], {}, 0
        tid = 0
        for seed in range(base, base + n_models):
            rng = random.Random(seed)
            model, I = lattice.lattice_objects(rng, allow_delete=False)
            # idle storage power matters for the PUE driver
            for drv in numcheck.DRIVERS:
                k = rng.choice([2, 3])
                tid += 1
                # one pair in three is observed on a single live system edited in place (server types switched by edits
                # first, then the driver multiplied by edits); the others on two fresh builds
                live_pair = (seed + numcheck.DRIVERS.index(drv)) % 3 == 0
                try:
                    r = (numcheck.pair_event_live if live_pair else numcheck.pair_event)(ns, tid, 0, model, I, drv, k, rng)
                except lattice.OffLattice:
                    continue
                if r is None:
                    continue
                pair, ev2 = r
                pair["seed"] = seed
                ev2["seed"], ev2["tid"], ev2["seq"] = seed, tid, 1
                events += [pair, ev2]
                per_driver[drv] = per_driver.get(drv, 0) + 1
                n_live += int(live_pair)
                out.nontrivial.add((seed, drv, k))
        fails, notes, res = numcheck.validate(wd, events)
        out.add_tlc(res, "Trace_Numeric: driver pairs")
        out.traces += len(events) // 2
        out.evaluations += sum(len(e.get("obs", [])) for e in events)
        numcheck.judge(out, events, fails)
        vac = sum(1 for n in notes if n[2] == "vacuous-pair")
        pairs = [e for e in events if e["ev"] == "Pair"]
        for e in pairs[:3]:
            out.sample({"seed": e["seed"], "driver": e["driver"], "k": e["k"], "changed_inputs": e["changed_inputs"]})
        out.extra.update({"rule": "a case = a pair of real systems differing by one driver x k; distinct by (seed, driver, k)",
                          "pairs_per_driver": per_driver, "pairs_observed_on_one_live_system": n_live,
                          "simulations_toggled_before_the_driver_was_multiplied": numcheck.SKIPPED.get("simulated_before_scaling", 0),
                          "refused_edits_made_before_the_driver_was_multiplied": numcheck.SKIPPED.get("refused_before_scaling", 0), "pairs_without_any_driven_observation": vac})
        out.assumptions += ["drivers are multiplied on lattice inputs so that both systems stay exactly comparable; "
                            "k in {2, 3}"]
        if len(per_driver) < len(numcheck.DRIVERS):
            raise MachineryError(f"vacuous run: drivers never exercised: {set(numcheck.DRIVERS) - set(per_driver)}")
    finally:
        cleanup(wd)


def replay(path, out):
    run("quick", out)
