"""C05 -- a what-if simulation never disturbs the baseline model.

1. TLC: the simulation protocol on value identities (spec/EFSim.tla): every failure point of the creation sequence
   (filter, copy, apply, allowed-values check, each recomputation) x any sequence of set / reset toggles; invariant
   BaselineIntact (the very same value objects in every slot and the same children sets among them); two simulations side by
   side on one system, either of which can be switched on and off (ResetSwitchesOff; a model in which only the last started
   simulation puts the baseline back must give a counterexample).
2. conformance: seeded real systems (all sharing patterns), change lists (inputs, links / lists, mixtures, invalid,
   not-allowed and recomputation-failing ones), dates inside and outside the period and naive, toggle sequences; before
   and after every operation the identity of every value object, the dependency graph on both ends, value classes and
   links are projected, and TLC (Trace_Sim) requires the state to be the baseline's whenever simulated values are not set.
"""
from .. import efx, gen, simcheck, tlc, tracecheck
import random

from ..common import work_dir, cleanup, seed_from_env, MachineryError

KEYS = ("tid", "seq", "ev", "tok", "val", "chld", "anc", "links", "outcome", "exc", "date_kind", "expect_ok", "recomputed",
        "n_values_to_recompute", "all_ups_active", "date_hour", "hourly_input_changed", "timeline_shifted", "period_refusal")


def model_cfg(structural, max_sims=2, reset_only_latest="FALSE"):
    return ("SPECIFICATION Spec\nCONSTANTS\n  RestoreOnFailure = TRUE\n  Structural = %s\n  MaxSims = %d\n  ResetOnlyLatest = %s\n"
            "VIEW View\nINVARIANT BaselineIntact\nINVARIANT TwinsPaired\nINVARIANT SimulatedValuesInstalled\nINVARIANT GraphClosed\n"
            "PROPERTY AllOrNothing\nPROPERTY ResetSwitchesOff\n" % (structural, max_sims, reset_only_latest))


def run_focus(prop, focus, tier, out):
    wd = work_dir(prop.lower())
    try:
        tlc.stage_specs(wd)
        for st in ("FALSE", "TRUE"):
            res = tlc.run_tlc(wd, "EFSim", model_cfg(st), workers=4, timeout=900)
            tlc.require_clean(res, "EFSim")
            out.add_tlc(res, f"EFSim protocol, structural={st}", exhaustive=res.completed)
            if res.error:
                out.violation("model:" + res.error, {"tlc_output_tail": res.out[-4000:]})
        if focus == "C05":
            # the model is not vacuous about several simulations: if only the last started one put the baseline back, TLC finds it
            resw = tlc.run_tlc(wd, "EFSim", model_cfg("FALSE", reset_only_latest="TRUE"), workers=4, timeout=900)
            if not (resw.error and "ResetSwitchesOff" in resw.out):
                raise MachineryError("EFSim did not produce the expected counterexample for ResetOnlyLatest")
        ns = efx.load()
        base = seed_from_env() * 100000
        n = 60 if tier == "quick" else 1200
        events, flavours, outcomes = [], {}, {}
        for tid, seed in enumerate(range(base, base + n), start=1):
            evs = simcheck.one_history(ns, tid, seed)
            events += evs
            for e in evs:
                if e["ev"] == "SimCreate":
                    key = f"{e['flavour']}/{e['date_kind']}"
                    flavours[key] = flavours.get(key, 0) + 1
                    outcomes[e["outcome"]] = outcomes.get(e["outcome"], 0) + 1
                    out.nontrivial.add((seed, e["flavour"], e["date_kind"]))
        if focus != "C05":
            tid = len(events) + 1000
            want, want_shared, got, got_shared = (4, 2, 0, 0) if tier == "quick" else (40, 20, 0, 0)
            for seed in range(base + 5000, base + 5000 + 20 * want):
                if got >= want and got_shared >= want_shared:
                    break
                shared = "journey-shared-by-patterns" in gen.shape_tags(gen.random_model(random.Random(seed)))
                if got >= want and not shared:
                    continue
                evs = simcheck.probe_inputs(ns, tid, seed)
                if not evs:
                    continue
                got += 1
                got_shared += int(shared)
                tid += len(evs) + 1
                events += evs
                for e in evs:
                    flavours["probe"] = flavours.get("probe", 0) + 1
                    out.nontrivial.add((seed, e["flavour"], "probe"))
            # link / list changes simulated on systems whose usage patterns are in two zones far apart, in both assignments
            want_l, got_l = (6, 0) if tier == "quick" else (60, 0)
            for seed in range(base + 9000, base + 9000 + 20 * want_l):
                if got_l >= want_l:
                    break
                evs = simcheck.probe_links(ns, tid, seed)
                if not evs:
                    continue
                got_l += 1
                tid += len(evs) + 1
                events += evs
                for e in evs:
                    flavours["probe-links"] = flavours.get("probe-links", 0) + 1
                    out.nontrivial.add((seed, e["flavour"], "probe"))
            if got_l == 0:
                raise MachineryError("vacuous run: no simulated link change recomputed a usage pattern")
        trace = wd + "/sim.ndjson"
        tracecheck.write_trace(trace, events, keys=KEYS)
        fails, _n, res2 = tracecheck.validate(wd, "Trace_Sim", trace, {"Focus": tlc.tla_str(focus)}, timeout=3000)
        out.add_tlc(res2, "Trace_Sim on recorded simulations")
        out.traces += len({e["tid"] for e in events})
        out.evaluations += len(events)
        by = {(e["tid"], e["seq"]): e for e in events}
        for t, s, clause, data in fails:
            e = by.get((t, s), {})
            create = next((x for x in events if x["tid"] == t and x["ev"] in ("SimCreate", "SimProbe")), {})
            out.violation(f"{clause}:{create.get('flavour')}:{create.get('date_kind')}" if "(" not in clause else clause,
                          {"clause": clause, "spec_says": data[:1500], "seed": e.get("seed"), "event": e.get("ev"),
                           "flavour": create.get("flavour"), "date_kind": create.get("date_kind"),
                           "outcome": create.get("outcome"), "exc": create.get("exc")})
        for e in [x for x in events if x["ev"] == "SimCreate"][:4]:
            out.sample({k: e[k] for k in ("seed", "flavour", "date_kind", "outcome", "exc", "n_values_to_recompute")})
        out.extra.update({"rule": "a case = one simulation on a seeded real system (change-list flavour x date kind x toggle "
                                  "sequence), every intermediate state projected and judged by TLC; distinct by (seed, flavour, date)",
                          "simulations_per_flavour_and_date": flavours, "outcomes": outcomes})
        out.assumptions += ["value-object identity is Python object identity (objects are kept alive during a history)",
                            "observable state = inputs, links, calculated values, direct_ancestors_with_id / "
                            "direct_children_with_id; bookkeeping attributes (system.simulation, previous totals, twin "
                            "pointers) are not part of it"]
        if outcomes.get("raised", 0) == 0 or outcomes.get("created", 0) == 0:
            raise MachineryError("vacuous run: simulations all succeeded or all failed")
    finally:
        cleanup(wd)


def run(tier, out):
    run_focus("C05", "C05", tier, out)


def replay(path, out):
    run("quick", out)
