"""C10 -- results do not depend on the units inputs are expressed in.

Specification: in the TLA+ model inputs are physical quantities (EFNumeric / EFQuantity work in base units), so unit
independence is a pure conformance question; the rule is Trace_Edit's Sibling clause: two builds of the same abstract
model may not differ in any calculated value.  Driver: for every quantity-valued input of every core class (all of them
in the thorough tier, a seeded sample in the quick tier) and every compatible unit of a fixed table (B/kB/MB/GB/TB,
s/min/hour/day/year, mW/W/kW, g/kg/t, g/kWh / kg/MWh / kg/kWh, Wh/MB / kWh/GB / J/B, ...):
  (a) the system is rebuilt with that input re-expressed in the other unit;
  (b) on two identical live systems the input is then edited to a new physical value, expressed in the original unit on one
      and in the other unit on the other (a value that enters through an edit must be treated like one given at creation);
  (c) the unit alone is corrected on a live system (same number, other unit);
  (d) the system of (a) is saved to JSON and loaded again (the file carries the unit the user chose).
Every calculated value of every variant must equal the reference's.
"""
import copy
import json
import random

from .. import efx, gen, tlc, tracecheck
from ..common import work_dir, cleanup, seed_from_env, MachineryError

UNIT_FAMILIES = [
    ["B", "kB", "MB", "GB", "TB"],
    ["s", "min", "hour", "day", "year"],
    ["mW", "W", "kW"],
    ["g", "kg", "t"],
    ["g/kWh", "kg/MWh", "kg/kWh"],
    ["Wh/MB", "kWh/GB", "J/B"],
    ["kg/TB", "g/GB"],
    ["W/TB", "mW/GB"],
    ["hour/day", "dimensionless", "min/hour"],
    ["cpu_core"],
    ["dimensionless"],
]


def alternatives(ns, unit):
    u = ns.u
    dim = u(unit).dimensionality
    for fam in UNIT_FAMILIES:
        if unit in fam or any(str(u(x).units) == str(u(unit).units) for x in fam):
            return [x for x in fam if u(x).dimensionality == dim and str(u(x).units) != str(u(unit).units)]
    return [x for fam in UNIT_FAMILIES for x in fam if u(x).dimensionality == dim and str(u(x).units) != str(u(unit).units)
            and fam[0] not in ("B", "dimensionless", "hour/day")][:2]


def reexpress(ns, mv, unit2):
    q = (mv[0] * ns.u(mv[1])).to(ns.u(unit2))
    return [float(q.magnitude), unit2]


def run(tier, out):
    wd = work_dir("c10")
    try:
        tlc.stage_specs(wd)
        laws = ("AddIsUnitSafe", "MulIsUnitSafe", "MaxAwareIsUnitSafe", "MaxRawRightInSameUnit", "CeilRightOnCounts")
        resm = tlc.run_tlc(wd, "MC_Units", "SPECIFICATION Spec\n" + "".join(f"INVARIANT {x}\n" for x in laws), workers=8, timeout=900)
        tlc.require_clean(resm, "MC_Units")
        out.add_tlc(resm, "MC_Units: unit-aware operators ignore how an operand is written; the bare-magnitude helpers are "
                          "right under their precondition", exhaustive=resm.completed)
        if resm.error:
            out.violation("model:" + resm.error, {"tlc_output_tail": resm.out[-3000:]})
        # the precondition is needed: without it TLC must find operands for which the bare-magnitude maximum is wrong
        resw = tlc.run_tlc(wd, "MC_Units", "SPECIFICATION Spec\nINVARIANT MaxRawAlwaysRight\n", workers=8, timeout=900)
        if not (resw.error and "MaxRawAlwaysRight" in resw.out):
            raise MachineryError("MC_Units did not produce the expected counterexample for MaxRawAlwaysRight")
        # unbounded counterparts of three of the laws (every natural magnitude, every positive unit factor): TLAPS proofs
        pr = tlc.run_tlapm(wd, "EFUnitsProofs")
        out.extra["tlaps"] = {"module": "EFUnitsProofs", "theorems": ["ReexpressionKeepsBase", "MaxAwareIsUnitSafe", "MulIsUnitSafe",
                                                                          "MaxRawRightInSameUnit"],
                              "available": pr["available"], "obligations_proved": pr["proved"], "obligations_failed": pr["failed"],
                              "wall_s": pr["wall_s"]}
        if pr["available"] and pr["failed"] != 0:
            raise MachineryError("the TLAPS proofs of EFUnitsProofs no longer check (the proofs concern the model, not the code):\n" + pr["tail"])
        ns = efx.load()
        base = seed_from_env() * 100000
        n_models = 5 if tier == "quick" else 20
        per_model = 6 if tier == "quick" else 10 ** 6
        events, tid = [], 0
        covered = {}
        def storage_users(model):
            reach, by_sto = efx.reachable(model), {}
            for j in efx.names_of(model, "Job"):
                if j in reach:
                    by_sto.setdefault(model[model[j]["lnk"]["server"]]["lnk"]["storage"], []).append(j)
            return {s: js for s, js in by_sto.items() if len(js) >= 2}

        plan = [(seed, False) for seed in range(base, base + n_models)]
        for seed in range(base + 1000, base + 1400):       # plus systems in which two jobs share a storage
            if len(plan) >= n_models + (2 if tier == "quick" else 8):
                break
            mcand = gen.random_model(random.Random(seed))
            if storage_users(mcand) and any(
                    uj in efx.reachable(mcand) and len(mcand[uj]["lst"]["uj_steps"]) >= 2
                    and any(mcand[s]["lst"]["jobs"] for s in mcand[uj]["lst"]["uj_steps"][1:])
                    for uj in efx.names_of(mcand, "UsageJourney")):
                plan.append((seed, True))
        for seed, with_delete in plan:
            rng = random.Random(seed)
            model = gen.random_model(rng)
            # make the storage duration matter
            for s in efx.names_of(model, "Storage"):
                model[s]["inp"]["data_storage_duration"] = [rng.choice([2, 3]), "hour"]
            for up in efx.names_of(model, "UsagePattern"):
                model[up]["opt"]["starts"] = (model[up]["opt"]["starts"] * 3)[:9]
            forced = []
            if with_delete:
                # a storage shared by a job that stores and a job that deletes data (each amount has its own unit)
                by_sto = storage_users(model)
                shared = sorted(by_sto)
                if shared:
                    sto = rng.choice(shared)
                    ja, jb = by_sto[sto][0], by_sto[sto][1]
                    model[ja]["inp"]["data_stored"] = [200, "kB"]
                    model[jb]["inp"]["data_stored"] = [-50, "kB"]
                    model[sto]["inp"]["base_storage_need"] = [1, "TB"]
                    forced = [(ja, "data_stored"), (jb, "data_stored"), (sto, "base_storage_need")]
                    # whole numbers of hours and of instances, where a float a hair off the whole number would show
                    first_steps = [model[uj]["lst"]["uj_steps"][0] for uj in efx.names_of(model, "UsageJourney")
                                   if uj in efx.reachable(model) and len(model[uj]["lst"]["uj_steps"]) >= 2
                                   and any(model[s]["lst"]["jobs"] for s in model[uj]["lst"]["uj_steps"][1:])]
                    if first_steps:
                        model[first_steps[0]]["inp"]["user_time_spent"] = [40, "min"]       # x 1.5 = one hour exactly
                        forced.append((first_steps[0], "user_time_spent"))
            # a job that lasts more than an hour, written in minutes (2.5 hours): its duration in whole hours must not depend on
            # the unit; kept only if the system can still be built with it
            jobs_r = [j for j in efx.names_of(model, "Job") if j in efx.reachable(model)]
            long_job, before = None, None
            if jobs_r:
                long_job = rng.choice(jobs_r)
                before = model[long_job]["inp"]["request_duration"]
                model[long_job]["inp"]["request_duration"] = [150, "min"]
            try:
                ref_live = efx.build(ns, model)
                if long_job:
                    forced.append((long_job, "request_duration"))
            except Exception:
                if not long_job:
                    continue
                model[long_job]["inp"]["request_duration"] = before
                try:
                    ref_live = efx.build(ns, model)
                except Exception:
                    continue
            names = sorted(efx.reachable(model))
            ref = efx.snapshot(ns, ref_live, names)
            inputs = [(n, a) for n in names for a in model[n]["inp"]]
            rng.shuffle(inputs)
            # inputs whose (class, attribute) has not been re-expressed yet come first
            inputs.sort(key=lambda x: f"{model[x[0]]['cls']}.{x[1]}" in covered)
            seen_here = set()
            chosen = []
            for n, a in inputs:
                k = f"{model[n]['cls']}.{a}"
                if k not in covered and k not in seen_here:
                    chosen.append((n, a))
                    seen_here.add(k)
            chosen = forced + [x for x in chosen if x not in forced]
            chosen += [x for x in inputs if x not in chosen][: max(0, per_model - len(chosen))]
            for n, a in chosen:
                mv = model[n]["inp"][a]
                alts = alternatives(ns, mv[1])
                if not alts:
                    continue
                for unit2 in (alts if tier == "thorough" or (n, a) in forced else [rng.choice(alts)]):
                    tid += 1
                    key = f"{model[n]['cls']}.{a}"
                    covered.setdefault(key, set()).add(unit2)
                    out.nontrivial.add((seed, n, a, unit2))
                    # (a) rebuilt with the input re-expressed
                    m2 = copy.deepcopy(model)
                    m2[n]["inp"][a] = reexpress(ns, mv, unit2)
                    other = None
                    try:
                        other = efx.build(ns, m2)
                        d = [list(x) for x in efx.diff(ref, efx.snapshot(ns, other, names), names)]
                    except Exception as ex:   # noqa
                        d = [[f"build raised {type(ex).__name__}", str(ex)[:80]]]
                        other = None
                    events.append({"tid": tid, "seq": 0, "ev": "Sibling", "seed": seed,
                                   "variant": f"unit-at-creation({key}: {mv[1]} -> {unit2})", "differs": d})
                    # (d) ... and that system saved to JSON and loaded again: what is written to the file carries the unit the
                    #     user chose, and must carry the value in full
                    if other is not None:
                        try:
                            sysn = efx.system_name(m2)
                            js = json.loads(json.dumps(ns.system_to_json(other[sysn], save_calculated_attributes=False)))
                            _c, flat = ns.json_to_system(js)
                            loaded = {o.name: o for o in flat.values()}
                            d = [list(x) for x in efx.diff(ref, efx.snapshot(ns, loaded, names), names)]
                        except Exception as ex:   # noqa
                            d = [[f"save / load raised {type(ex).__name__}", str(ex)[:80]]]
                        events.append({"tid": tid, "seq": 3, "ev": "Sibling", "seed": seed,
                                       "variant": f"unit-at-creation-then-saved-and-loaded({key}: {mv[1]} -> {unit2})", "differs": d})
                    # (b) edited on live systems to a new physical value, in either unit
                    new_mv = [mv[0] * 1.5 + (0.25 if mv[0] == 0 else 0), mv[1]]
                    l1, l2 = efx.build(ns, model), efx.build(ns, model)
                    try:
                        efx.apply_edit_live(ns, model, l1, ("input", n, a, new_mv))
                        efx.apply_edit_live(ns, model, l2, ("input", n, a, reexpress(ns, new_mv, unit2)))
                        d = [list(x) for x in efx.diff(efx.snapshot(ns, l1, names), efx.snapshot(ns, l2, names), names)]
                    except Exception as ex:   # noqa: both must behave alike, including when they raise
                        d = []
                        try:
                            efx.apply_edit_live(ns, model, l2, ("input", n, a, reexpress(ns, new_mv, unit2)))
                            d = [[f"only the original unit raised {type(ex).__name__}", str(ex)[:80]]]
                        except Exception:
                            pass
                    events.append({"tid": tid, "seq": 1, "ev": "Sibling", "seed": seed,
                                   "variant": f"unit-of-a-live-edit({key}: {mv[1]} vs {unit2})", "differs": d})
                    # (c) the unit alone is corrected on a live system (same number, other unit): the result must be the
                    #     one of a system built with that value
                    ratio = efx._base_factor(ns, ns.u(unit2).units) / efx._base_factor(ns, ns.u(mv[1]).units)
                    too_long = a in ("user_time_spent", "request_duration") and \
                        mv[0] * efx._base_factor(ns, ns.u(unit2).units) > 2 * 86400        # durations of days: hours of computing
                    if mv[0] != 0 and 1e-3 <= ratio <= 1e3 and not too_long:
                        same_number = [mv[0], unit2]
                        m3 = copy.deepcopy(model)
                        m3[n]["inp"][a] = same_number
                        try:
                            fresh = efx.build(ns, m3)
                        except Exception:   # noqa: the corrected value is not acceptable for this system
                            fresh = None
                        if fresh is not None:
                            l3 = efx.build(ns, model)
                            try:
                                efx.apply_edit_live(ns, model, l3, ("input", n, a, same_number))
                                d = [list(x) for x in efx.diff(efx.snapshot(ns, fresh, names), efx.snapshot(ns, l3, names), names)]
                            except Exception as ex:   # noqa
                                d = [[f"the live edit raised {type(ex).__name__}", str(ex)[:80]]]
                            events.append({"tid": tid, "seq": 2, "ev": "Sibling", "seed": seed,
                                           "variant": f"unit-corrected-on-a-live-system({key}: {mv[0]} {mv[1]} -> {mv[0]} {unit2})",
                                           "differs": d})
        # whole numbers of hours and of instances: 3 x 20 min is one hour however 20 min is written, 2 TB on 1 TB disks is
        # two instances however 2 TB is written (a float a hair off the whole number would be floored / ceiled elsewhere)
        bm = {}
        bm["sto1"] = efx.new_obj("Storage", storage_capacity=[1, "TB"], base_storage_need=[2, "TB"])
        bm["sv1"] = efx.new_obj("Server", storage="sto1")
        bm["j1"] = efx.new_obj("Job", server="sv1", data_stored=[0, "kB"])
        bm["j2"] = efx.new_obj("Job", server="sv1", data_stored=[0, "kB"])
        bm["s1"] = efx.new_obj("UsageJourneyStep", jobs=["j1"], user_time_spent=[20, "min"])
        bm["s2"] = efx.new_obj("UsageJourneyStep", jobs=["j2"], user_time_spent=[1, "min"])
        bm["uj1"] = efx.new_obj("UsageJourney", uj_steps=["s1", "s1", "s1", "s2"])
        bm["d1"], bm["n1"], bm["c1"] = efx.new_obj("Device"), efx.new_obj("Network"), efx.new_obj("Country")
        bm["up1"] = efx.new_obj("UsagePattern", usage_journey="uj1", network="n1", country="c1", devices=["d1"],
                                starts=[3, 1, 4, 1, 5, 9, 2, 6])
        bm["sys"] = efx.new_obj("System", usage_patterns=["up1"])
        bnames = sorted(efx.reachable(bm))
        bref = efx.snapshot(ns, efx.build(ns, bm), bnames)
        for (bn, ba) in (("s1", "user_time_spent"), ("sto1", "base_storage_need")):
            for unit2 in alternatives(ns, bm[bn]["inp"][ba][1]):
                tid += 1
                b2 = copy.deepcopy(bm)
                b2[bn]["inp"][ba] = reexpress(ns, bm[bn]["inp"][ba], unit2)
                blive = None
                try:
                    blive = efx.build(ns, b2)
                    d = [list(x) for x in efx.diff(bref, efx.snapshot(ns, blive, bnames), bnames)]
                except Exception as ex:   # noqa
                    d = [[f"build raised {type(ex).__name__}", str(ex)[:80]]]
                events.append({"tid": tid, "seq": 0, "ev": "Sibling", "seed": -1,
                               "variant": f"unit-at-creation({bm[bn]['cls']}.{ba}: whole-number case, {bm[bn]['inp'][ba][1]} -> {unit2})",
                               "differs": d})
                if blive is not None and not d:
                    try:
                        js = json.loads(json.dumps(ns.system_to_json(blive["sys"], save_calculated_attributes=False)))
                        _c, flat = ns.json_to_system(js)
                        d = [list(x) for x in efx.diff(bref, efx.snapshot(ns, {o.name: o for o in flat.values()}, bnames), bnames)]
                    except Exception as ex:   # noqa
                        d = [[f"save / load raised {type(ex).__name__}", str(ex)[:80]]]
                    events.append({"tid": tid, "seq": 3, "ev": "Sibling", "seed": -1,
                                   "variant": f"unit-at-creation-then-saved-and-loaded({bm[bn]['cls']}.{ba}: whole-number case, "
                                              f"{bm[bn]['inp'][ba][1]} -> {unit2})", "differs": d})
                out.nontrivial.add(("whole-number", bn, ba, unit2))
        trace = wd + "/c10.ndjson"
        tracecheck.write_trace(trace, events, keys=("tid", "seq", "ev", "variant", "differs"))
        fails, _n, res2 = tracecheck.validate(wd, "Trace_Edit", trace, {"JFN": "TRUE"}, timeout=3000)
        out.add_tlc(res2, "Trace_Edit on unit siblings")
        out.traces += len(events)
        out.evaluations += len(events)
        by = {(e["tid"], e["seq"]): e for e in events}
        for t, s, clause, data in fails:
            e = by.get((t, s), {})
            out.violation("results-depend-on-unit:" + e.get("variant", "?").split("(")[0] + ":" +
                          e.get("variant", "?").split("(")[1].split(":")[0],
                          {"spec_says": data[:1200], "seed": e.get("seed"), "variant": e.get("variant")})
        for e in events[:4]:
            out.sample({k: e[k] for k in ("seed", "variant", "differs")})
        out.extra.update({"rule": "a case = one (system, input, other unit) pair, at creation and through a live edit; "
                                  "distinct by (seed, object, attribute, unit)",
                          "inputs_and_units_covered": {k: sorted(v) for k, v in sorted(covered.items())}})
        out.assumptions += ["pint's conversion factors are trusted; values compared at rtol 1e-9",
                            "hourly usage starts are dimensionless counts and have no alternative unit"]
        if len(covered) < 10:
            raise MachineryError("vacuous run: fewer than 10 distinct inputs were re-expressed")
    finally:
        cleanup(wd)


def replay(path, out):
    run("quick", out)
