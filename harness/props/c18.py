"""C18 -- a computed model is a fixed point and computing never alters inputs.

1. TLC: FreshAfterCreation on MC_Update -- the creation walk of System.after_init (transcribed in EFCore) leaves no value
   computed from a stale operand, for every topology of the small universe (lists up to 2).
2. conformance (Trace_Edit): real systems after seeded edit histories; the order in which objects really computed their
   attributes at creation is re-run on the model by TLC; a second full pass, and explicit recomputation of random
   subsets of objects in random orders, must change nothing; reading, str(), explain(), to_json, system_to_json (with
   and without calculated attributes) and plotting must leave every input physically unchanged and every calculated
   value unchanged.
"""
import json
import random

from .. import efx, gen, history, tlc, tracecheck
from ..common import work_dir, cleanup, seed_from_env
from . import c01


def fractional_starts(rng, model):
    for up in efx.names_of(model, "UsagePattern"):
        model[up]["opt"]["starts"] = [round(x * rng.choice([0.48, 1.2, 2.37]), 4) for x in model[up]["opt"]["starts"]]


def input_state(ns, live):
    out = {}
    for n, o in live.items():
        for a, v in efx.explainable_attrs(ns, o).items():
            if a in o.calculated_attributes or a in efx.BOOKKEEPING or isinstance(v, dict):
                continue
            out[f"{n}.{a}"] = efx.project_value(ns, v)
    return out


def calc_state(ns, live, names):
    snap = efx.snapshot(ns, live, names)
    return {n: {a: v for a, v in snap[n].items() if a in live[n].calculated_attributes} for n in names}


def changed_inputs(a, b):
    return sorted(k for k in set(a) | set(b) if k not in a or k not in b or not efx.values_equal(a[k], b[k]))


def observe(ns, live, model, kind, rng):
    system = live[efx.system_name(model)]
    if kind == "str":
        for o in live.values():
            str(o)
            for v in efx.explainable_attrs(ns, o).values():
                str(v)
    elif kind == "explain":
        for o in live.values():
            for a in o.calculated_attributes:
                v = getattr(o, a)
                for x in (v.values() if isinstance(v, dict) else [v]):
                    x.explain()
    elif kind == "to_json":
        for o in live.values():
            o.to_json(save_calculated_attributes=rng.random() < 0.5)
    elif kind == "system_to_json":
        json.dumps(ns.system_to_json(system, save_calculated_attributes=False))
    elif kind == "system_to_json_with_calculated":
        json.dumps(ns.system_to_json(system, save_calculated_attributes=True))
    elif kind == "plot":
        import matplotlib
        matplotlib.use("Agg")
        import matplotlib.pyplot as plt
        v = system.total_footprint
        if isinstance(v, ns.ExplainableHourlyQuantities):
            v.plot()
            v.plot(cumsum=True)
        plt.close("all")
    elif kind == "plot_simulation":
        # plotting a value that has a simulated twin draws both: neither the baseline nor the simulated values may change
        import matplotlib
        matplotlib.use("Agg")
        import matplotlib.pyplot as plt
        from .. import simcheck
        lo, hi, _last = simcheck.period(ns, live, model)
        cands = [(n, a) for n in sorted(efx.reachable(model)) for a in model[n]["inp"]]
        if lo is None or not cands:
            return []
        n, a = rng.choice(cands)
        old = getattr(live[n], a)
        try:
            sim = ns.ModelingUpdate([[old, ns.SourceValue(old.value * 2)]], lo.to_pydatetime())
        except Exception:   # noqa: refused simulations are C05 / C06's subject
            return []
        pairs = [(b, s) for b, s in zip(sim.values_to_recompute, sim.recomputed_values)
                 if isinstance(b, ns.ExplainableHourlyQuantities) and isinstance(s, ns.ExplainableHourlyQuantities)]
        before = [efx.project_value(ns, s) for _b, s in pairs]
        for b, _s in pairs[:4] + pairs[-2:]:
            b.plot()
            b.plot(cumsum=True)
        plt.close("all")
        return [[f"simulated twin of {b.modeling_obj_container.name}.{b.attr_name_in_mod_obj_container}", "<changed by plot>"]
                for (b, s), v0 in zip(pairs, before) if not efx.values_equal(v0, efx.project_value(ns, s))]
    elif kind == "footprint_views":
        system.total_energy_footprint_sum_over_period
        system.fabrication_footprint_sum_over_period
        system.energy_footprints
    else:
        raise ValueError(kind)


KINDS = ["str", "explain", "to_json", "system_to_json", "system_to_json_with_calculated", "plot", "plot_simulation",
         "footprint_views"]


def run(tier, out):
    wd = work_dir("c18")
    try:
        tlc.stage_specs(wd)
        cfg = c01.mc_cfg(1 if tier == "quick" else 2, False, invariant="FreshAfterCreation", flags={"CheckUpdates": "FALSE"})
        res = tlc.run_tlc(wd, "MC_Update", cfg, workers=16, timeout=3000)
        tlc.require_clean(res, "MC_Update[creation]")
        out.add_tlc(res, "MC_Update: FreshAfterCreation on every topology", exhaustive=res.completed)
        if res.error:
            out.violation("model:" + res.error, {"tlc_output_tail": res.out[-4000:]})
        ns = efx.load()
        base = seed_from_env() * 100000
        n_hist, n_edits = (16, 5) if tier == "quick" else (300, 12)
        events, tid = [], 0
        log = efx.EventLog(ns)
        kinds_seen = {}
        for seed in range(base, base + n_hist):
            rng = random.Random(seed)
            model = gen.random_model(rng)
            if seed % 2:
                fractional_starts(rng, model)
                for sto in efx.names_of(model, "Storage"):     # defaults (0 TB, no base consumption) hide in-place additions
                    model[sto]["inp"]["base_storage_need"] = [rng.choice([0.5, 2]), "TB"]
                for sv in efx.names_of(model, "Server"):
                    model[sv]["inp"]["base_ram_consumption"] = [rng.choice([2, 8]), "GB"]
            tid += 1
            log.clear()
            try:
                h = history.LiveHistory(ns, log, tid, model)
            except Exception:
                continue
            computed = [r["obj"] for r in log.events if r["ev"] == "compute_object" and r["obj"] in h.live
                        and type(h.live[r["obj"]]).__name__ != "UsageJourney"]
            names = sorted(efx.reachable(h.model))
            c0 = calc_state(ns, h.live, names)
            for o in computed:                         # second full pass in the same order
                h.live[o].compute_calculated_attributes()
            d = efx.diff(c0, calc_state(ns, h.live, names), names)
            seq = 0
            events.append({"tid": tid, "seq": seq, "ev": "Create", "seed": seed, "T": efx.topo_json(h.model),
                           "computed": computed, "second_pass_changed": [list(x) for x in d]})
            for _ in range(n_edits):
                e = gen.random_edit(rng, h.model)
                ev = h.do(e, compare_with_rebuild=False)
                if ev["ev"] == "Raised":
                    break
            if h.events[-1]["ev"] == "Raised":
                continue
            # one more edit in every history: a step duration moved across an hour boundary (what comes later in the journey
            # is then placed another hour: every value that depends on it must have been recomputed by the edit itself)
            steps = [s for s in efx.names_of(h.model, "UsageJourneyStep") if s in efx.reachable(h.model)]
            if steps:
                s = rng.choice(sorted(steps))
                cur_min = h.model[s]["inp"]["user_time_spent"][0] * {"s": 1 / 60, "min": 1, "hour": 60}.get(
                    h.model[s]["inp"]["user_time_spent"][1], 1)
                ev = h.do(("input", s, "user_time_spent", [70 if cur_min < 60 else 20, "min"]), compare_with_rebuild=False)
                if ev["ev"] == "Raised":
                    continue
            # two more: an input that is exactly 0 (a job that transfers nothing), then non-zero again -- what was computed while it
            # was 0 must have kept it as an operand
            jobs = [j for j in efx.names_of(h.model, "Job") if j in efx.reachable(h.model)]
            if jobs:
                j = rng.choice(sorted(jobs))
                a = rng.choice(["data_transferred", "data_stored", "ram_needed"])
                unit = h.model[j]["inp"][a][1]
                back = h.model[j]["inp"][a][0] * 2 or efx.DEFAULTS["Job"][a][0]
                if h.do(("input", j, a, [0, unit]), compare_with_rebuild=False)["ev"] == "Raised" or \
                        h.do(("input", j, a, [back, unit]), compare_with_rebuild=False)["ev"] == "Raised":
                    continue
            # plotting values that have a simulated twin, while the graph is still the one the edits left
            names = sorted(efx.reachable(h.model))
            i0, c0 = input_state(ns, h.live), calc_state(ns, h.live, names)
            note, extra = "none", []
            try:
                extra = observe(ns, h.live, h.model, "plot_simulation", rng) or []
            except Exception as ex:   # noqa
                note = f"{type(ex).__name__}: {str(ex)[:80]}"
            seq += 1
            events.append({"tid": tid, "seq": seq, "ev": "Observe", "seed": seed, "kind": "plot_simulation", "raised": note,
                           "inputs_changed": changed_inputs(i0, input_state(ns, h.live)),
                           "calc_changed": [list(x) for x in efx.diff(c0, calc_state(ns, h.live, names), names)] + extra})
            kinds_seen["plot_simulation"] = kinds_seen.get("plot_simulation", 0) + 1
            # recomputation requests and observations come after the edits: recomputing one object replaces its
            # value objects, after which its dependents still list the superseded ones (see DESIGN.md section 6) --
            # that is about the graph (C08) and later edits (C01), not about the values C18 talks about
            for _ in range(n_edits):
                names = sorted(efx.reachable(h.model))
                # explicit recomputation of a random subset in a random order
                objs = [n for n in names if h.live[n].calculated_attributes]
                rng.shuffle(objs)
                objs = objs[: rng.randint(1, len(objs))]
                i0, c0 = input_state(ns, h.live), calc_state(ns, h.live, names)
                for o in objs:
                    h.live[o].compute_calculated_attributes()
                seq += 1
                events.append({"tid": tid, "seq": seq, "ev": "Recompute", "seed": seed, "objs": objs,
                               "changed": [list(x) for x in efx.diff(c0, calc_state(ns, h.live, names), names)]
                               + [[k, "<input>"] for k in changed_inputs(i0, input_state(ns, h.live))]})
                kind = rng.choice(KINDS)
                i0, c0 = input_state(ns, h.live), calc_state(ns, h.live, names)
                note = "none"
                extra = []
                try:
                    extra = observe(ns, h.live, h.model, kind, rng) or []
                except Exception as ex:   # noqa: an observation that raises is noted, the state is still compared
                    note = f"{type(ex).__name__}: {str(ex)[:80]}"
                seq += 1
                events.append({"tid": tid, "seq": seq, "ev": "Observe", "seed": seed, "kind": kind, "raised": note,
                               "inputs_changed": changed_inputs(i0, input_state(ns, h.live)),
                               "calc_changed": [list(x) for x in efx.diff(c0, calc_state(ns, h.live, names), names)] + extra})
                kinds_seen[kind] = kinds_seen.get(kind, 0) + 1
                out.nontrivial.add((seed, seq))
            # each update function run on its own: it may not alter any other value (its operands in particular)
            names = sorted(efx.reachable(h.model))
            pairs = [(n, a) for n in names for a in h.live[n].calculated_attributes]
            rng.shuffle(pairs)
            for n, a in (pairs if tier == "thorough" else pairs[:25]):
                i0, c0 = input_state(ns, h.live), calc_state(ns, h.live, names)
                note = "none"
                try:
                    ns.retrieve_update_function(h.live[n], a)()
                except Exception as ex:   # noqa
                    note = f"{type(ex).__name__}: {str(ex)[:80]}"
                seq += 1
                events.append({"tid": tid, "seq": seq, "ev": "Recompute", "seed": seed, "objs": [f"{n}.{a}"],
                               "changed": [list(x) for x in efx.diff(c0, calc_state(ns, h.live, names), names)]
                               + [[k, "<input>"] for k in changed_inputs(i0, input_state(ns, h.live))]
                               + ([["<raised>", note]] if note != "none" else [])})
                out.nontrivial.add((seed, seq))
        log.close()
        trace = wd + "/c18.ndjson"
        tracecheck.write_trace(trace, events, keys=("tid", "seq", "ev", "T", "computed", "second_pass_changed", "objs",
                                                      "changed", "kind", "inputs_changed", "calc_changed"))
        fails, _n, res2 = tracecheck.validate(wd, "Trace_Edit", trace, {"JFN": "TRUE"}, timeout=3000)
        out.add_tlc(res2, "Trace_Edit on creation orders, recomputations and observations")
        out.traces += tid
        out.evaluations += len(events)
        by = {(e["tid"], e["seq"]): e for e in events}
        for t, s, clause, data in fails:
            e = by.get((t, s), {})
            out.violation(clause, {"spec_says": data[:1500], "seed": e.get("seed"), "event": {k: e.get(k) for k in ("ev", "kind", "objs")}})
        for e in events[:6]:
            out.sample({k: e.get(k) for k in ("ev", "seed", "computed", "objs", "kind", "raised") if k in e})
        out.extra.update({"rule": "a case = one creation order, one explicit recomputation of a random subset/order, or one "
                                  "read-only use of a real system after a seeded edit history; distinct by (seed, position)",
                          "observation_kinds": kinds_seen,
                          "observations_that_raised": sorted({e["raised"] for e in events if e["ev"] == "Observe" and e["raised"] != "none"})[:5]})
        out.assumptions += ["inputs are compared physically (base units, rtol 1e-9): an in-place unit conversion that keeps the "
                            "physical value is allowed"]
    finally:
        cleanup(wd)


def replay(path, out):
    run("quick", out)
