"""C20 -- hourly-series builders produce exactly the requested time line.

1. TLC: calendar laws of spec/EFCalendar.tla on every day 1970..2100 (round trip civil <-> days, successor day, month
   lengths, leap years incl. century rule, day of year, weekday anchors) and builder laws on enumerated arguments
   (one value per hour, volume only at matching hours, daily spread sums to the volume on every full day).
2. conformance: every helper of builders/time_builders.py is called with seeded arguments straddling month ends, leap
   days, year ends, non-midnight starts and non-whole-day spans; index (hours), unit and values are logged as integers
   and TLC requires equality with EFCalendar's builders.
"""
import random
from datetime import datetime, timedelta

from .. import efx, tlc, tracecheck
from ..common import work_dir, cleanup, seed_from_env, MachineryError

EPOCH = datetime(1970, 1, 1)


def hours_of(index):
    return [int(t) // efx.EPOCH_NS_PER_H for t in index.asi8]


def ints(vals, scale=1, what=""):
    out = []
    for x in vals:
        y = float(x) * scale
        r = round(y)
        if abs(y - r) > 1e-6 * max(1.0, abs(y)):
            raise MachineryError(f"off-lattice value {x!r} in {what}")
        out.append(int(r))
    return out


def start_dates(rng):
    anchors = [datetime(2025, 1, 1), datetime(2024, 2, 27), datetime(2025, 2, 27), datetime(2024, 12, 30),
               datetime(2025, 3, 29), datetime(2023, 6, 30), datetime(2100, 2, 27), datetime(2000, 2, 28)]
    d = rng.choice(anchors) + timedelta(hours=rng.choice([0, 0, 1, 6, 13, 23, 17]))
    return d


def span_quantity(rng, u, span_h):
    """a time span of span_h whole hours, written the various ways a caller may write it"""
    form = rng.choice(["day", "day", "hour", "seconds", "day+seconds", "day+seconds", "day+hours", "week+day"])
    d, h = divmod(span_h, 24)
    if form == "day":
        return span_h / 24 * u.day
    if form == "hour":
        return span_h * u.hour
    if form == "seconds":
        return span_h * 3600 * u.second
    if form == "day+seconds":
        return d * u.day + h * 3600 * u.second
    if form == "day+hours":
        return d * u.day + h * u.hour
    w, dd = divmod(d, 7)
    return w * u.week + dd * u.day + h * u.hour


def used_span(rng, u, tb, span_h, start, pu, e):
    """the span of a call, written one of the ways a caller may write it; in two calls out of five the same Quantity object has
    been given to another builder first (a caller defines its period once and passes it around)"""
    sp = span_quantity(rng, u, span_h)
    e["span_written"] = f"{float(sp.magnitude)!r} {sp.units}"
    e["span_used_before_by"] = "none"
    if rng.random() < 0.4:
        pre = rng.choice(["random", "linear", "sinus", "daily_fluct", "frequency"])
        try:
            if pre == "random":
                tb.create_random_hourly_usage_df(sp, 1, 10, start, pu)
            elif pre == "linear":
                tb.linear_growth_hourly_values(sp, 0, 10, start, pu)
            elif pre == "sinus":
                tb.sinusoidal_fluct_hourly_values(sp, 1, 12, start, pu)
            elif pre == "daily_fluct":
                tb.daily_fluct_hourly_values(sp, 0.5, 4, start, pu)
            else:
                tb.create_hourly_usage_from_frequency(sp, 1, "daily", None, None, start, pu)
        except Exception:   # noqa: what the first builder does with the span is not this call's subject
            pass
        e["span_used_before_by"] = pre
    return sp


def record_calls(ns, rng, n, tid0=0):
    from efootprint.builders import time_builders as tb
    u = ns.u
    events = []
    units = ["dimensionless", "kB", "GB"]
    for k in range(n):
        fn = rng.choice(["list", "list_src", "frequency", "frequency", "frequency", "daily_volume", "linear", "sinus",
                         "daily_fluct", "random"])
        start = start_dates(rng)
        unit = rng.choice(units)
        pu = u(unit).units
        if fn in ("list", "list_src", "linear", "sinus", "daily_fluct", "random") and rng.random() < 0.3:
            # the series starts at the requested date, which need not be on the hour (local midnight in Kolkata is 18:30 UTC)
            start = start + timedelta(minutes=rng.choice([30, 15, 45, 59]), seconds=rng.choice([0, 0, 59]))
        e = {"tid": tid0 + k, "seq": 0, "start": int((start - EPOCH).total_seconds() // 3600), "unit_in": str(pu),
             "start_sub": int((start - EPOCH).total_seconds()) % 3600}
        if fn in ("list", "list_src"):
            lst = [rng.choice([0, 1, 2, 7, 1000]) for _ in range(rng.randint(1, 50))]
            if fn == "list":
                df = tb.create_hourly_usage_df_from_list(lst, start_date=start, pint_unit=pu)
            else:
                df = tb.create_source_hourly_values_from_list(lst, start_date=start, pint_unit=pu).value
            e.update(fn="list", list=lst)
        elif fn == "frequency":
            freq = rng.choice(["daily", "weekly", "monthly", "yearly"])
            span_h = rng.choice([24, 48, 36, 47, 23, 24 * 7, 24 * 35 + 5, 24 * 62, 0, 24 * 400 if freq == "yearly" else 24 * 10])
            days = None
            if freq != "daily" and rng.random() < 0.7:
                days = sorted({rng.choice({"weekly": [0, 1, 5, 6], "monthly": [1, 15, 28, 29, 30, 31],
                                           "yearly": [1, 59, 60, 61, 365, 366]}[freq]) for _ in range(rng.choice([1, 2]))})
            hours = sorted({rng.randint(0, 23) for _ in range(rng.choice([1, 2, 3]))}) if rng.random() < 0.7 else None
            vol = rng.choice([1, 5, 1000])
            src = tb.create_hourly_usage_from_frequency(span_quantity(rng, u, span_h), vol, freq, days, hours, start, pu)
            df = src.value
            e.update(fn="frequency", span=span_h, volume=vol, freq=freq, days=days or [], days_given=days is not None,
                     hours=hours or [], hours_given=hours is not None)
        elif fn == "daily_volume":
            hours = sorted({rng.randint(0, 23) for _ in range(rng.choice([1, 2, 3, 4]))})
            distinct = len(hours)
            if rng.random() < 0.3:
                hours = hours + [rng.choice(hours)]         # an hour named twice is still one hour of the day
            per_hour = rng.choice([1, 5, 250])
            span_h = rng.choice([24, 72, 24 * 10 + 7, 36, 47, 71])
            src = tb.create_hourly_usage_from_daily_volume_and_list_of_hours(
                span_quantity(rng, u, span_h), per_hour * distinct, hours, start, pu)
            df = src.value
            e.update(fn="daily_volume", span=span_h, volume=per_hour * distinct, per_hour=per_hour, hours=hours)
        elif fn == "linear":
            n_h = rng.choice([2, 5, 7, 14, 25, 28, 49, 50, 97])
            v0 = rng.choice([0, 10, 100])
            v1 = v0 + (n_h - 1) * rng.choice([0, 1, 3])
            sp = used_span(rng, u, tb, n_h, start, pu, e)
            df = tb.linear_growth_hourly_values(sp, v0, v1, start, pu).value
            e.update(fn="linear", n=n_h, v0=v0, v1=v1)
            try:
                e["idx"], e["vals"] = hours_of(df.index), ints(df["value"].values._data, n_h - 1, "linear")
            except MachineryError:      # with these arguments the ramp passes through whole numbers only
                e["idx"], e["vals"] = hours_of(df.index), [int(round(float(x) * (n_h - 1))) for x in df["value"].values._data]
                e["off_lattice_linear"] = True
        elif fn == "sinus":
            n_h, amp, period = rng.choice([30, 50, 31, 53, 100]), rng.choice([1, 5]), rng.choice([6, 12, 24])
            sp = used_span(rng, u, tb, n_h, start, pu, e)
            df = tb.sinusoidal_fluct_hourly_values(sp, amp, period, start, pu).value
            e.update(fn="sinus", n=n_h, amplitude=amp, period=period)
            e["idx"], e["vals"] = hours_of(df.index), [int(round(float(x) * 1e6)) for x in df["value"].values._data]
        elif fn == "daily_fluct":
            n_h, scale, mh = rng.choice([30, 72, 31, 97]), rng.choice([0.25, 0.5, 1]), rng.choice([4, 0, 23])
            sp = used_span(rng, u, tb, n_h, start, pu, e)
            df = tb.daily_fluct_hourly_values(sp, scale, mh, start, pu).value
            e.update(fn="daily_fluct", n=n_h, scale=int(scale * 1e6), min_hour=mh)
            e["idx"], e["vals"] = hours_of(df.index), [int(round(float(x) * 1e6)) for x in df["value"].values._data]
        else:
            span_h, lo, hi = rng.choice([24, 72, 7, 25, 100]), rng.choice([0, 1]), rng.choice([2, 10])
            sp = used_span(rng, u, tb, span_h, start, pu, e)
            df = tb.create_random_hourly_usage_df(sp, lo, hi, start, pu)
            e.update(fn="random", n=span_h + 1, lo=lo, hi=hi)
        e["off_lattice"] = bool(e.pop("off_lattice_linear", False))
        if "idx" not in e:
            try:
                e["idx"], e["vals"] = hours_of(df.index), ints(df["value"].values._data, 1, fn)
            except MachineryError:
                # the rule gives whole numbers for these arguments: a fraction is an observation, not a harness problem
                e["idx"], e["vals"] = hours_of(df.index), [int(round(float(x))) for x in df["value"].values._data]
                e["off_lattice"] = True
        e["unit_out"] = str(df.dtypes.iloc[0].units)
        e["idx_sub"] = sorted({int(x) // 10 ** 9 % 3600 for x in df.index.asi8})       # seconds past the hour of every time stamp
        if "span_written" in e:      # the caller's Quantity after the call(s): same number, same unit?
            e["span_left"] = f"{float(sp.magnitude)!r} {sp.units}"
        e["ev"] = "Call"
        events.append(e)
    return events


def run(tier, out):
    wd = work_dir("c20")
    try:
        tlc.stage_specs(wd)
        maxday = 47500 if tier == "quick" else 60000
        cal = ("SPECIFICATION Spec\nCONSTANTS\n  MaxDay = %d\n  Family = \"calendar\"\nINVARIANT RoundTrip\n"
               "INVARIANT WellFormedDate\nINVARIANT NextDay\nINVARIANT DayOfYearLaw\nINVARIANT Anchors\n" % maxday)
        res = tlc.run_tlc(wd, "MC_Calendar", cal, workers=16, timeout=1800)
        tlc.require_clean(res, "MC_Calendar[calendar]")
        out.add_tlc(res, f"MC_Calendar: calendar laws on days 0..{maxday}", exhaustive=res.completed)
        if res.error:
            out.violation("model:" + res.error, {"tlc_output_tail": res.out[-4000:]})
        bld = ("SPECIFICATION Spec\nCONSTANTS\n  MaxDay = 0\n  Family = \"builders\"\nINVARIANT OneValuePerHour\n"
               "INVARIANT VolumeOnlyAtMatchingHours\nINVARIANT DailySpreadSumsToVolumeOnFullDays\n"
               "INVARIANT WeeklyHitsOnlyThatWeekday\n")
        res = tlc.run_tlc(wd, "MC_Calendar", bld, workers=16, timeout=1800)
        tlc.require_clean(res, "MC_Calendar[builders]")
        out.add_tlc(res, "MC_Calendar: builder laws on enumerated arguments", exhaustive=res.completed)
        if res.error:
            out.violation("model:" + res.error, {"tlc_output_tail": res.out[-4000:]})
        ns = efx.load()
        n = 250 if tier == "quick" else 4000
        events = record_calls(ns, random.Random(seed_from_env() * 977 + 5), n)
        trace = wd + "/c20.ndjson"
        tracecheck.write_trace(trace, events, keys=sorted({k for e in events for k in e}))
        fails, _notes, res2 = tracecheck.validate(wd, "Trace_Calendar", trace, {})
        out.add_tlc(res2, "Trace_Calendar on recorded builder calls")
        out.traces += len(events)
        out.evaluations += len(events)
        kinds = {}
        for e in events:
            kinds[e["fn"]] = kinds.get(e["fn"], 0) + 1
            out.nontrivial.add((e["fn"], e["start"], str({k: v for k, v in e.items() if k not in ("idx", "vals", "tid")})))
        by = {e["tid"]: e for e in events}
        for t, s, clause, data in fails:
            e = by.get(t, {})
            out.violation(clause, {"spec_says": data, "call": {k: v for k, v in e.items() if k not in ("idx", "vals")},
                                   "returned_first": list(zip(e.get("idx", [])[:30], e.get("vals", [])[:30]))})
        for e in events[:4]:
            out.sample({k: (v if k not in ("idx", "vals") else v[:6]) for k, v in e.items()})
        out.extra.update({"rule": "a case = one call of a builder with seeded arguments, returned index / unit / values "
                                  "compared with EFCalendar by TLC; distinct by arguments", "calls_per_builder": kinds})
        out.assumptions += ["sinusoidal / daily-fluctuation / random builders: index, unit, bounds, periodicity and the "
                            "position of the minimum are checked, not the trigonometric values"]
    finally:
        cleanup(wd)


def replay(path, out):
    run("quick", out)
