"""C11 -- local-time usage is converted to UTC without losing or inventing traffic.

1. TLC: EFTime's placement rule on parametric zones (offsets -12h..+14h incl. half / quarter hours, one transition of
   +-30 min, +-60 min or a skipped day) and short series around the transition: every local time is placed, a choice
   exists only for repeated / skipped hours, every admissible conversion preserves the total.
2. conformance: the transition table of real IANA zones is extracted from pytz (quick: awkward zones + a seeded
   sample; thorough: every zone, every transition 1970-2037); the real convert_to_utc -- called directly and through
   UsagePattern.update_utc_hourly_usage_journey_starts on a usage pattern of a real system -- is run on series
   straddling each transition; input (local minutes), output (UTC minutes) and the table are logged and TLC requires the
   output to be an admissible conversion (EFTime), strictly increasing, total preserved.
"""
import copy
import random
from datetime import datetime, timedelta

from .. import efx, tlc, tracecheck
from ..common import work_dir, cleanup, seed_from_env, MachineryError

EPOCH = datetime(1970, 1, 1)
AWKWARD = ["Australia/Lord_Howe", "Asia/Kathmandu", "Asia/Kolkata", "Pacific/Chatham", "Pacific/Apia",
           "Africa/Casablanca", "America/St_Johns", "Europe/Paris", "America/New_York", "America/Caracas",
           "Asia/Pyongyang", "Pacific/Kiritimati", "Europe/Dublin", "Antarctica/Troll", "UTC", "Asia/Tehran"]


DOUBLE_ZONES = ["America/Boa_Vista", "America/Noronha", "America/Recife", "America/Argentina/Tucuman", "America/Fortaleza",
                "America/Maceio", "America/Argentina/Catamarca", "America/Argentina/La_Rioja", "America/Argentina/Rio_Gallegos"]


def minutes(dt):
    return int((dt - EPOCH).total_seconds() // 60)


SUB_MINUTE = {}     # zone -> set of table keys (utc minute) whose offset has seconds
SKIPPED = []


def zone_table(ns, name, lo_year=1969, hi_year=2038):
    """[[utc minute from which it applies, offset minutes], ...] of a pytz zone"""
    tz = ns.pytz.timezone(name)
    times = getattr(tz, "_utc_transition_times", None)
    if not times:
        off = int(tz.utcoffset(datetime(2025, 1, 1)).total_seconds() // 60)
        return [[-1000000000, off]]
    infos = tz._transition_info
    table = []
    first_off = None
    for t, info in zip(times, infos):
        off = int(info[0].total_seconds() // 60)
        sub = bool(info[0].total_seconds() % 60)          # an offset that is not a whole number of minutes
        if t.year < lo_year:
            first_off = off
            SUB_MINUTE.setdefault(name, set()).discard(-1000000000)
            if sub:
                SUB_MINUTE[name].add(-1000000000)          # only the offset in force at the start of the table matters
            continue
        if sub or t.second:                                # ... or a transition instant that is not a whole minute
            SUB_MINUTE.setdefault(name, set()).add(minutes(t))
        if t.year > hi_year:
            break
        table.append([minutes(t), off])
    if first_off is None:
        first_off = int(infos[0][0].total_seconds() // 60)
    table = [[-1000000000, first_off]] + table
    # drop pseudo-transitions that do not change the offset
    out = [table[0]]
    for row in table[1:]:
        if row[1] != out[-1][1]:
            out.append(row)
    return out


def restrict(table, lo, hi):
    """segments relevant for UTC minutes in [lo, hi] (with margin)"""
    keep = [r for r in table if lo - 3 * 1440 <= r[0] <= hi + 3 * 1440]
    before = [r for r in table if r[0] < lo - 3 * 1440]
    base = before[-1] if before else table[0]
    return [[-1000000000, base[1]]] + keep


def convert(ns, name, start_local, vals, via_pattern, live_cache, pre_zone=None):
    src = efx.hourly(ns, vals, start_local)
    if via_pattern and pre_zone is not None:
        # the series is first given while the country is (wrongly) in a zone of constant offset, converted once, and only then
        # the country's zone is corrected: the SAME series object is converted a second time, in a zone that agrees with the first
        # one at both ends of the series and differs from it in between
        up = live_cache["up"]
        cur = up.country
        cur.timezone = ns.SourceObject(ns.pytz.timezone(pre_zone))
        up.hourly_usage_journey_starts = src
        _ = up.utc_hourly_usage_journey_starts
        cur.timezone = ns.SourceObject(ns.pytz.timezone(name))
        res = up.utc_hourly_usage_journey_starts
    elif via_pattern:
        up = live_cache["up"]
        country = live_cache["country"]
        live_cache["n"] = live_cache.get("n", 0) + 1
        if live_cache["n"] % 2 and "other" in live_cache:
            # the local series first; then the usage pattern is moved to ANOTHER country that is in the same zone as its present one
            # (nothing to convert again), and only then that country's zone is corrected
            up.hourly_usage_journey_starts = src
            present = up.country.timezone.value
            other = live_cache["other"] if up.country.id == country.id else country
            if str(other.timezone.value) != str(present):
                other.timezone = ns.SourceObject(ns.pytz.timezone(str(present)))
            up.country = other
            other.timezone = ns.SourceObject(ns.pytz.timezone(name))
        else:
            cur = live_cache["other"] if "other" in live_cache and up.country.id == live_cache["other"].id else country
            cur.timezone = ns.SourceObject(ns.pytz.timezone(name))
            up.hourly_usage_journey_starts = src
        res = up.utc_hourly_usage_journey_starts
    else:
        res = src.convert_to_utc(local_timezone=ns.SourceObject(ns.pytz.timezone(name), label="tz"))
    df = res.value
    t = [int(x) // (60 * 10 ** 9) for x in df.index.asi8]
    v = [int(round(float(x))) for x in df["value"].values._data]
    return t, v


def record(ns, rng, cases):
    m = {}
    m["sto1"] = efx.new_obj("Storage")
    m["sv1"] = efx.new_obj("Server", storage="sto1")
    m["j1"] = efx.new_obj("Job", server="sv1")
    m["s1"] = efx.new_obj("UsageJourneyStep", jobs=["j1"])
    m["uj1"] = efx.new_obj("UsageJourney", uj_steps=["s1"])
    m["d1"] = efx.new_obj("Device")
    m["n1"] = efx.new_obj("Network")
    m["c1"] = efx.new_obj("Country")
    m["c2"] = efx.new_obj("Country")
    m["up1"] = efx.new_obj("UsagePattern", usage_journey="uj1", network="n1", country="c1", devices=["d1"],
                           starts=[1] * 8)
    m["sys"] = efx.new_obj("System", usage_patterns=["up1"])
    live = efx.build(ns, m)
    cache = {"up": live["up1"], "country": live["c1"], "other": live["c2"]}
    events = []
    for tid, case in enumerate(cases, start=1):
        name, table, at_min = case[:3]
        double_until = case[3] if len(case) > 3 else None
        n = 8 if rng.random() < 0.8 else rng.choice([3, 30])
        # local wall clock around the transition, on the hour
        off_before = [r for r in table if r[0] < at_min][-1][1] if at_min is not None else table[0][1]
        centre = (at_min if at_min is not None else minutes(datetime(2025, 6, 1))) + off_before
        start_min = (centre // 60) * 60 - 60 * rng.choice([2, 3, n // 2])
        pre_zone = None
        if double_until is not None:
            # a series that starts before one transition and ends after the next one, which puts the offset back
            start_min = (centre // 60) * 60 - 60 * rng.choice([2, 3, 5])
            n = (double_until + off_before - start_min) // 60 + rng.choice([3, 4, 6])
            pre_zone = "Etc/GMT%+d" % (-off_before // 60) if off_before else "UTC"
        start_local = EPOCH + timedelta(minutes=start_min)
        vals = [rng.choice([1, 2, 3, 5, 8]) for _ in range(n)]
        via = ((tid % 5 == 0) and n == 8) or double_until is not None
        lo, hi = start_min - 2 * 1440, start_min + n * 60 + 2 * 1440
        if name in SUB_MINUTE and any(r[0] in SUB_MINUTE[name] for r in restrict(table, lo, hi)):
            SKIPPED.append(name)        # an offset with seconds (e.g. Africa/Monrovia -0:44:30 until 1972) is not on the lattice
            continue
        try:
            if double_until is not None:
                # a system of its own, built with a series of the same length (a series can only be replaced by one as long)
                m2 = copy.deepcopy(m)
                m2["up1"] = efx.new_obj("UsagePattern", usage_journey="uj1", network="n1", country="c1", devices=["d1"],
                                        starts=[1] * n)
                live2 = efx.build(ns, m2)
                t, v = convert(ns, name, start_local, vals, via, {"up": live2["up1"], "country": live2["c1"]}, pre_zone)
            else:
                t, v = convert(ns, name, start_local, vals, via, cache, pre_zone)
        except Exception as ex:   # noqa
            raise MachineryError(f"conversion raised for {name} at {start_local}: {ex!r}")
        lo, hi = start_min - 2 * 1440, start_min + n * 60 + 2 * 1440
        events.append({"tid": tid, "seq": 0, "ev": "Convert", "name": name, "via_usage_pattern": via,
                       "double_transition": double_until is not None, "zone": restrict(table, lo, hi), "local_t": [start_min + 60 * k for k in range(n)],
                       "local_v": vals, "utc_t": t, "utc_v": v})
    return events


def combine_events(ns, rng, cases, tid0, n_max):
    """two usage patterns in two zones feeding one job: the job's occurrences across usage patterns against the two UTC series"""
    fixed = {}
    for z in sorted(ns.pytz.all_timezones):
        tb = zone_table(ns, z)
        if len(tb) == 1:
            fixed.setdefault(tb[0][1], []).append(z)
    m = {}
    m["sto1"] = efx.new_obj("Storage")
    m["sv1"] = efx.new_obj("Server", storage="sto1")
    m["j1"] = efx.new_obj("Job", server="sv1")
    m["s1"] = efx.new_obj("UsageJourneyStep", jobs=["j1"], user_time_spent=[1, "min"])
    m["uj1"] = efx.new_obj("UsageJourney", uj_steps=["s1"])
    m["d1"], m["n1"] = efx.new_obj("Device"), efx.new_obj("Network")
    events, tid = [], tid0
    picked = [c for c in cases if c[2] is not None]
    rng.shuffle(picked)
    for name, table, at_min in picked[:n_max]:
        off_before = [r for r in table if r[0] < at_min][-1][1]
        off_after = [r for r in table if r[0] <= at_min][-1][1]
        # the other zone: fixed offset equal to this zone's offset before the transition (same first UTC instant, and
        # the same number of UTC hours when the transition repeats an hour), else any awkward zone
        other = rng.choice(fixed[off_before]) if off_before in fixed and rng.random() < 0.7 else rng.choice(list(AWKWARD))
        if SUB_MINUTE.get(name) or SUB_MINUTE.get(other):
            continue
        n = 8
        start_min = ((at_min + off_before) // 60) * 60 - 60 * rng.choice([2, 3, 4])
        start = (EPOCH + timedelta(minutes=start_min)).strftime("%Y-%m-%dT%H:%M:%S")
        mm = dict(m)
        mm["c1"], mm["c2"] = efx.new_obj("Country", tz=name), efx.new_obj("Country", tz=other)
        v1, v2 = [rng.choice([1, 2, 3, 5, 8]) for _ in range(n)], [rng.choice([1, 2, 3, 5, 8]) * 10 for _ in range(n)]
        mm["up1"] = efx.new_obj("UsagePattern", usage_journey="uj1", network="n1", country="c1", devices=["d1"], starts=v1, start=start)
        mm["up2"] = efx.new_obj("UsagePattern", usage_journey="uj1", network="n1", country="c2", devices=["d1"], starts=v2, start=start)
        mm["sys"] = efx.new_obj("System", usage_patterns=["up1", "up2"])
        try:
            live = efx.build(ns, mm)
        except Exception as ex:   # noqa
            raise MachineryError(f"two-zone system cannot be built ({name}, {other}): {ex!r}")

        def ser(v):
            if isinstance(v, ns.EmptyExplainableObject):
                return [], []
            df = v.value
            return [int(x) // (60 * 10 ** 9) for x in df.index.asi8], [int(round(float(x))) for x in df["value"].values._data]
        t1, w1 = ser(live["up1"].utc_hourly_usage_journey_starts)
        t2, w2 = ser(live["up2"].utc_hourly_usage_journey_starts)
        ts, ws = ser(live["j1"].hourly_occurrences_across_usage_patterns)
        tid += 1
        events.append({"tid": tid, "seq": 0, "ev": "Combine", "name": f"{name} + {other}", "utc1_t": t1, "utc1_v": w1,
                       "utc2_t": t2, "utc2_v": w2, "sum_t": ts, "sum_v": ws, "via_usage_pattern": True,
                       "local_t": [start_min], "utc_t": ts, "falls_back": off_after < off_before})
    return events


def run(tier, out):
    wd = work_dir("c11")
    try:
        tlc.stage_specs(wd)
        cfg = ("SPECIFICATION Spec\nINVARIANT EveryLocalTimeIsPlaced\nINVARIANT ChoiceOnlyAtTheTransition\n"
               "INVARIANT AnyAdmissibleConversionPreservesTheTotal\n")
        res = tlc.run_tlc(wd, "MC_Time", cfg, workers=8, timeout=1800)
        tlc.require_clean(res, "MC_Time")
        out.add_tlc(res, "MC_Time: parametric zones x series around the transition", exhaustive=res.completed)
        if res.error:
            out.violation("model:" + res.error, {"tlc_output_tail": res.out[-4000:]})
        ns = efx.load()
        rng = random.Random(seed_from_env() * 31 + 3)
        zones = list(AWKWARD)
        allz = sorted(ns.pytz.all_timezones)
        if tier == "quick":
            zones += rng.sample(allz, 25)
        else:
            zones = allz
        cases = []
        for name in zones:
            table = zone_table(ns, name)
            trans = [r[0] for r in table[1:]]
            if tier == "quick":
                recent = [t for t in trans if t > minutes(datetime(2005, 1, 1))][-4:]
                pick = sorted(set(recent + (rng.sample(trans, min(2, len(trans))) if trans else [])))
            else:
                pick = trans
            if not pick:
                cases.append((name, table, None))
            for t in pick:
                cases.append((name, table, t))
        # zones in which two transitions a few days apart put the offset back to what it was (a one-week summer time in north-east
        # Brazil in 2000, Argentina's provinces in 2004, ...): a series spanning both agrees at its two ends with a zone without any
        doubles = []
        for name in (DOUBLE_ZONES if tier == "quick" else allz):
            table = zone_table(ns, name)
            for i in range(1, len(table) - 1):
                before, t1, o1, t2, after = table[i - 1][1], table[i][0], table[i][1], table[i + 1][0], table[i + 1][1]
                if before == after and before != o1 and before % 60 == 0 and t2 - t1 <= 20 * 1440:
                    doubles.append((name, table, t1, t2))
        if tier == "quick":
            doubles = rng.sample(doubles, min(6, len(doubles)))
        if not doubles:
            raise MachineryError("no zone with two close transitions found in pytz's tables")
        cases += doubles
        events = record(ns, rng, cases)
        comb = combine_events(ns, rng, [c for c in cases if len(c) == 3], 10 ** 6, 40 if tier == "quick" else 1500)
        events += comb
        trace = wd + "/c11.ndjson"
        tracecheck.write_trace(trace, events, keys=("tid", "seq", "ev", "name", "zone", "local_t", "local_v", "utc_t", "utc_v",
                                                      "utc1_t", "utc1_v", "utc2_t", "utc2_v", "sum_t", "sum_v"))
        fails, _n, res2 = tracecheck.validate(wd, "Trace_Time", trace, {}, timeout=6000)
        out.add_tlc(res2, "Trace_Time on recorded conversions")
        out.traces += len(events)
        out.evaluations += len(events)
        by = {e["tid"]: e for e in events}
        kinds = {"skipped": 0, "repeated": 0, "none": 0}
        for e in events:
            out.nontrivial.add((e["name"], e["local_t"][0]))
            if e["ev"] == "Combine":
                continue
            lost = len(e["local_t"]) - len(e["utc_t"])
            kinds["skipped" if lost > 0 else "none"] += 1
        for t, s, clause, data in fails:
            e = by.get(t, {})
            out.violation(f"{clause}", {"zone": e.get("name"), "spec_says": data[:1500], "local_t": e.get("local_t"),
                                        "local_v": e.get("local_v"), "utc_t": e.get("utc_t"), "utc_v": e.get("utc_v"),
                                        "table": e.get("zone")})
        for e in events[:3]:
            out.sample({k: e[k] for k in ("name", "zone", "local_t", "local_v", "utc_t", "utc_v", "via_usage_pattern")})
        out.extra.update({"rule": "a case = one hourly series straddling one transition of one IANA zone, converted by the "
                                  "real code and judged admissible or not by TLC; distinct by (zone, first local hour)",
                          "zones": len(set(e["name"] for e in events)), "conversions_with_merged_hours": kinds["skipped"],
                          "through_usage_pattern": sum(1 for e in events if e.get("via_usage_pattern")),
                          "series_spanning_two_transitions_after_a_zone_correction": sum(1 for e in events if e.get("double_transition")),
                          "two_zone_systems_combined": len(comb), "of_which_with_a_fall_back": sum(1 for e in comb if e["falls_back"]),
                          "cases_skipped_because_of_sub_minute_offsets_or_instants": sorted(set(SKIPPED))})
        out.assumptions += ["pytz's transition tables are the definition of the zones",
                            "for a repeated local hour either of its two instants is accepted, for a skipped one either "
                            "side of the transition (the property only requires that it is merged, not dropped)"]
    finally:
        cleanup(wd)


def replay(path, out):
    run("quick", out)
