"""C04 -- infrastructure is always sized to cover the computed need.

1. TLC: sizing theorems on EFNumeric over a small input domain (MC_Numeric, family "sizing"): instances >= raw
   need per server type, fixed counts honoured or refused, cumulative storage = base + running sum >= 0, capacity
   x instances covers it, active <= provisioned, a deletion-free model is never negative, needs combine by timestamp.
2. conformance: real systems from seeded lattice inputs (all server types, fixed counts, capacity errors, writing
   and deleting jobs over equal / overlapping / disjoint windows, storage durations shorter and longer than the
   period); every server / storage value AND what building raises is compared exactly with EFNumeric by TLC; the
   sizing theorems are evaluated on the observed values.
   The same after in-place edits that raise the load, change a fixed count, a request duration or the data stored.
3. float inputs ("awkward" magnitudes): only the qualitative clause is decided -- a model without deleting job is
   never rejected for negative storage.
"""
import random

from .. import efx, gen, lattice, numcheck, tlc
from ..common import work_dir, cleanup, seed_from_env

SIZING_KINDS = ["ram_need4", "cpu_need4", "raw480", "nb480", "sto_delta", "sto_cum", "sto_nb", "sto_active_cap"]


def float_models(ns, rng, n, tid0):
    """random systems with awkward float inputs and short storage durations, no deleting job"""
    events = []
    for k in range(n):
        model = gen.random_model(rng)
        for name in efx.names_of(model, "Storage"):
            model[name]["inp"]["data_storage_duration"] = [rng.choice([1, 2, 3, 5, 7.5]), "hour"]
            model[name]["inp"]["data_replication_factor"] = [rng.choice([1, 3, 2.5]), "dimensionless"]
            model[name]["inp"]["base_storage_need"] = [0, "TB"]
        for name in efx.names_of(model, "Job"):
            model[name]["inp"]["data_stored"] = [rng.choice([0.1, 1 / 3, 100, 7.77, 0]), "kB"]
        for name in efx.names_of(model, "UsagePattern"):
            n_h = rng.randint(4, 30)
            model[name]["opt"]["starts"] = [rng.choice([0, 1, 2, 3, 7, 11]) for _ in range(n_h)]
        raised, note = "none", ""
        try:
            efx.build(ns, model)
        except Exception as ex:   # noqa: what is raised is the observation
            raised = numcheck.classify_raise(ex)
            note = str(ex)[:160]
        events.append({"tid": tid0 + k, "seq": 0, "ev": "FloatModel", "deleting": False, "raised": raised, "note": note})
    return events


def run(tier, out):
    wd = work_dir("c04")
    try:
        tlc.stage_specs(wd)
        numcheck.run_theorems(out, wd, "sizing", numcheck.INVARIANTS["sizing"], large=(tier == "thorough"))
        ns = efx.load()
        base = seed_from_env() * 100000
        n_models, n_float = (200, 120) if tier == "quick" else (4000, 3000)
        events, _ = numcheck.random_events(ns, range(base, base + n_models), theorems=["sizing"], with_fixed=True)
        # the same on systems edited in place: the need is raised after the instance counts were computed once
        n_hist = 40 if tier == "quick" else 800
        edited = numcheck.edited_events(ns, range(base + 50000, base + 50000 + n_hist), 5, theorems=["sizing"],
                                        with_fixed=True, allow_delete=False)
        for e in edited:
            e["tid"] += 2 * 10 ** 6
        events += edited
        events += float_models(ns, random.Random(base + 11), n_float, 10 ** 6)
        fails, _notes, res = numcheck.validate(wd, events, focus=SIZING_KINDS)
        out.add_tlc(res, "Trace_Numeric: server/storage kinds, raises, float models")
        models = [e for e in events if e["ev"] == "Model"]
        out.traces += len(events)
        out.evaluations += sum(len(e["obs"]) for e in models) + n_float
        raises = {}
        for e in models:
            raises[e["raised"]] = raises.get(e["raised"], 0) + 1
            out.nontrivial.add(("model", e["seed"], e["seq"]))
        for e in events:
            if e["ev"] == "FloatModel":
                out.nontrivial.add(("float", e["tid"]))
        numcheck.judge(out, events, fails)
        for e in models[:3]:
            out.sample({"seed": e["seed"], "raised": e["raised"], "servers": e["I"]["sv"], "storages": e["I"]["st"],
                        "observed": [o for o in e["obs"] if o["k"] in ("nb480", "sto_cum")][:2]})
        out.extra.update({"rule": "a case = one real system built from lattice inputs (server and storage values and the "
                                  "exception raised compared exactly with the TLA+ transcription) or one float-input system "
                                  "(qualitative clause only); distinct by seed",
                          "what_building_raised": raises,
                          "edit_histories_cut_short_by_the_32_bit_range": numcheck.SKIPPED["edits"],
                          "float_models": n_float,
                          "float_models_raised": sum(1 for e in events if e["ev"] == "FloatModel" and e["raised"] != "none")})
        out.assumptions += ["exact numeric conformance on lattice inputs only; on arbitrary floats only 'a deletion-free "
                            "model is not rejected for negative storage' is decided (sampled inputs)",
                            "an instance count one above the exact ceiling is accepted where the raw need is an exact "
                            "integer (float quotient a hair above it) -- it still covers the need"]
        if not {"fixed-count", "negative-storage", "capacity"} & set(raises):
            from ..common import MachineryError
            raise MachineryError("vacuous run: no generated model exercised a raising update function")
    finally:
        cleanup(wd)


def replay(path, out):
    run("quick", out)
