"""C04 -- infrastructure is always sized to cover the computed need.

1. TLC: sizing theorems on EFNumeric over a small input domain (MC_Numeric, family "sizing"): instances >= raw
   need per server type, fixed counts honoured or refused, cumulative storage = base + running sum >= 0, capacity
   x instances covers it, active <= provisioned, a deletion-free model is never negative, needs combine by timestamp.
2. conformance: real systems from seeded lattice inputs (all server types, fixed counts, capacity errors, writing
   and deleting jobs over equal / overlapping / disjoint windows, storage durations shorter and longer than the
   period); every server / storage value AND what building raises is compared exactly with EFNumeric by TLC; the
   sizing theorems are evaluated on the observed values.
   The same after in-place edits that raise the load, change a fixed count, a request duration or the data stored.
   The same, from the jobs' own hourly occurrences, on systems with services after a job or a service is moved (LiveSizing).
3. float inputs ("awkward" magnitudes): only the qualitative clause is decided -- a model without deleting job is
   never rejected for negative storage.
"""
import random

from .. import efx, gen, lattice, numcheck, tlc
from ..common import work_dir, cleanup, seed_from_env

SIZING_KINDS = ["ram_need4", "cpu_need4", "raw480", "nb480", "sto_delta", "sto_cum", "sto_nb", "sto_active_cap"]


def float_models(ns, rng, n, tid0):
    """random systems with awkward float inputs and short storage durations, no deleting job"""
    events = []
    for k in range(n):
        model = gen.random_model(rng)
        for name in efx.names_of(model, "Storage"):
            model[name]["inp"]["data_storage_duration"] = [rng.choice([1, 2, 3, 5, 7.5]), "hour"]
            model[name]["inp"]["data_replication_factor"] = [rng.choice([1, 3, 2.5]), "dimensionless"]
            model[name]["inp"]["base_storage_need"] = [0, "TB"]
        for name in efx.names_of(model, "Job"):
            model[name]["inp"]["data_stored"] = [rng.choice([0.1, 1 / 3, 100, 7.77, 0]), "kB"]
        for name in efx.names_of(model, "UsagePattern"):
            n_h = rng.randint(4, 30)
            model[name]["opt"]["starts"] = [rng.choice([0, 1, 2, 3, 7, 11]) for _ in range(n_h)]
        raised, note = "none", ""
        try:
            efx.build(ns, model)
        except Exception as ex:   # noqa: what is raised is the observation
            raised = numcheck.classify_raise(ex)
            note = str(ex)[:160]
        events.append({"tid": tid0 + k, "seq": 0, "ev": "FloatModel", "deleting": False, "raised": raised, "note": note})
    return events


def live_sizing_event(ns, tid, seq, system, services, label):
    """what every server and storage of a live system offers at every hour, next to what its jobs need, recomputed here from
    the jobs' own hourly occurrences and the inputs (forward links only: journey -> steps -> jobs -> server -> storage)"""
    def hq(v):
        p = efx.project_value(ns, v)
        return p[3] if p[0] == "H" else {}

    def sq(v):
        p = efx.project_value(ns, v)
        return p[2] if p[0] == "Q" else 0.0
    jobs = {}
    for up in system.usage_patterns:
        for step in up.usage_journey.uj_steps:
            for j in step.jobs:
                jobs[j.id] = j
    services = {x.id: x for x in list(services) + [j.service for j in jobs.values() if hasattr(j, "service")]}
    ev = {"tid": tid, "seq": seq, "ev": "LiveSizing", "label": label, "servers": [], "storages": []}
    for srv in sorted(system.servers, key=lambda x: x.name):
        mine = [j for j in jobs.values() if j.server.id == srv.id]
        inst = [x for x in services.values() if x.server.id == srv.id]
        avail_ram = sq(srv.ram) * sq(srv.server_utilization_rate) - sq(srv.base_ram_consumption) - sum(
            sq(x.base_ram_consumption) for x in inst)
        avail_cpu = sq(srv.compute) * sq(srv.server_utilization_rate) - sq(srv.base_compute_consumption) - sum(
            sq(x.base_compute_consumption) for x in inst)
        need = {}
        for j in mine:
            for h, occ in hq(j.hourly_avg_occurrences_across_usage_patterns).items():
                r, c_ = need.get(h, (0.0, 0.0))
                need[h] = (r + occ * sq(j.ram_needed), c_ + occ * sq(j.compute_needed))
        nb = hq(srv.nb_of_instances)
        hours = sorted(set(need) | set(nb))
        ev["servers"].append({"o": srv.name, "type": str(srv.server_type.value), "h": hours,
                              "need": [int(round(1000 * max(need.get(h, (0, 0))[0] / avail_ram, need.get(h, (0, 0))[1] / avail_cpu)))
                                       for h in hours],
                              "nb": [int(round(1000 * nb.get(h, 0.0))) for h in hours]})
        sto = srv.storage
        delta = {}
        for j in mine:
            for h, x in hq(j.hourly_data_stored_across_usage_patterns).items():
                delta[h] = delta.get(h, 0.0) + x * sq(sto.data_replication_factor)
        snb = hq(sto.nb_of_instances)
        hours = sorted(set(delta) | set(snb))
        if hours and sq(sto.data_storage_duration) > 3600 * (hours[-1] - hours[0] + 1):     # nothing expires within the period
            cum, run_ = [], sq(sto.base_storage_need)
            for h in hours:
                run_ += delta.get(h, 0.0)
                cum.append(int(round(run_ / 8e6)))
            ev["storages"].append({"o": sto.name, "h": hours, "cum": cum,
                                   "cap": [int(round(snb.get(h, 0.0) * sq(sto.storage_capacity) / 8e6)) for h in hours]})
    return ev


def service_events(ns, tid0):
    """systems with services (web application, video streaming, generative AI on a GPU server): a job moved to a service that has no
    job yet on another server, a service moved to another server -- the servers and storages must be sized for the jobs they
    run NOW"""
    from . import c17
    events, tid = [], tid0
    for kind in ("VideoStreaming", "WebApplication", "GenAIModel"):
        for what in ("built", "job.service", "service.server", "job.service-and-back"):
            tid += 1
            try:
                system, job, s1, s2, a, b = c17.relink_build(ns, kind, 1, "A", scale=200000 if kind == "WebApplication" else 2000, storage_capacity=lambda: c17.sv(ns, 1, "GB"))
                if what.startswith("job.service"):
                    job.service = s2
                    if what.endswith("back"):
                        job.service = s1
                elif what == "service.server":
                    s1.server = b
                events.append(live_sizing_event(ns, tid, 0, system, [s1, s2], f"{kind}:{what}"))
            except Exception as ex:   # noqa: the observation is that the move could not be made or read
                events.append({"tid": tid, "seq": 0, "ev": "LiveSizing", "label": f"{kind}:{what}", "servers": [], "storages": [],
                               "error": f"{type(ex).__name__}: {str(ex)[:150]}"})
    return events


def run(tier, out):
    wd = work_dir("c04")
    try:
        tlc.stage_specs(wd)
        numcheck.run_theorems(out, wd, "sizing", numcheck.INVARIANTS["sizing"], large=(tier == "thorough"))
        ns = efx.load()
        base = seed_from_env() * 100000
        n_models, n_float = (200, 120) if tier == "quick" else (4000, 3000)
        events, _ = numcheck.random_events(ns, range(base, base + n_models), theorems=["sizing"], with_fixed=True)
        # the same on systems edited in place: the need is raised after the instance counts were computed once
        n_hist = 40 if tier == "quick" else 800
        edited = numcheck.edited_events(ns, range(base + 50000, base + 50000 + n_hist), 5, theorems=["sizing"],
                                        with_fixed=True, allow_delete=False, group_prob=0.2)
        for e in edited:
            e["tid"] += 2 * 10 ** 6
        events += edited
        events += float_models(ns, random.Random(base + 11), n_float, 10 ** 6)
        svc = service_events(ns, 4 * 10 ** 6)
        events += svc
        for e in svc:
            out.nontrivial.add(("service", e["label"]))
        fails, _notes, res = numcheck.validate(wd, events, focus=SIZING_KINDS)
        out.add_tlc(res, "Trace_Numeric: server/storage kinds, raises, float models")
        models = [e for e in events if e["ev"] == "Model"]
        out.traces += len(events)
        out.evaluations += sum(len(e["obs"]) for e in models) + n_float
        raises = {}
        for e in models:
            raises[e["raised"]] = raises.get(e["raised"], 0) + 1
            out.nontrivial.add(("model", e["seed"], e["seq"]))
        for e in events:
            if e["ev"] == "FloatModel":
                out.nontrivial.add(("float", e["tid"]))
        numcheck.judge(out, events, fails)
        for e in models[:3]:
            out.sample({"seed": e["seed"], "raised": e["raised"], "servers": e["I"]["sv"], "storages": e["I"]["st"],
                        "observed": [o for o in e["obs"] if o["k"] in ("nb480", "sto_cum")][:2]})
        out.extra.update({"rule": "a case = one real system built from lattice inputs (server and storage values and the "
                                  "exception raised compared exactly with the TLA+ transcription) or one float-input system "
                                  "(qualitative clause only); distinct by seed",
                          "what_building_raised": raises,
                          "edit_histories_cut_short_by_the_32_bit_range": numcheck.SKIPPED["edits"],
                          "float_models": n_float,
                          "float_models_raised": sum(1 for e in events if e["ev"] == "FloatModel" and e["raised"] != "none")})
        out.assumptions += ["exact numeric conformance on lattice inputs only; on arbitrary floats only 'a deletion-free "
                            "model is not rejected for negative storage' is decided (sampled inputs)",
                            "an instance count one above the exact ceiling is accepted where the raw need is an exact "
                            "integer (float quotient a hair above it) -- it still covers the need"]
        if not {"fixed-count", "negative-storage", "capacity"} & set(raises):
            from ..common import MachineryError
            raise MachineryError("vacuous run: no generated model exercised a raising update function")
    finally:
        cleanup(wd)


def replay(path, out):
    run("quick", out)
