"""C08 -- the calculation graph is consistent and complete.

1. TLC: the chain algorithm's order on the modelled graph (MC_Update, invariant NoStale: every dependent recomputed after
   everything it depends on, for every topology of the small universe and every input) -- shared with C01 -- and invariant
   GraphFresh: after every update no relevant value lists a superseded value object among its ancestors (every slot reading
   a replaced value object -- a changed input, a recomputed value, ANY entry of a recomputed dictionary -- is itself
   recomputed afterwards), which is what makes the one-step result extend to every history.
2. conformance, decided by TLC on graphs read from real systems (spec/EFGraph.tla, Trace_Graph):
   - after every step of seeded histories of edits, simulations and toggles the graph (ancestors and children of every
     value currently held) is projected, together with any reference to a detached / superseded value and the
     comparison with the exported JSON graph: symmetric, no dangling or detached reference, acyclic, export = live;
   - completeness: every input is perturbed in a rebuilt system, the set of values that change must lie within its
     transitive descendants in the recorded graph;
   - update order: attr_updates_chain of every input lists each descendant once, after its ancestors.
"""
import copy
import random

from .. import efx, gen, history, tlc, tracecheck
from ..common import work_dir, cleanup, seed_from_env, MachineryError
from . import c01


def held_values(ns, live):
    """(id string, value object) of every value currently held by the model's objects"""
    out = []
    for n in sorted(live):
        o = live[n]
        for a, v in efx.explainable_attrs(ns, o).items():
            if a in efx.BOOKKEEPING:
                continue
            if isinstance(v, dict):
                for x in v.values():
                    out.append(x)
            else:
                out.append(v)
    return out


def is_current(ns, v):
    c = v.modeling_obj_container
    if c is None:
        return False
    cur = c.__dict__.get(v.attr_name_in_mod_obj_container)
    if isinstance(cur, dict):
        return any(x is v for x in cur.values())
    return cur is v


def entry_id(ns, v):
    """identifier of one value object: entries of a per-usage-pattern dictionary share their id, the key tells them apart"""
    c = v.modeling_obj_container
    cur = c.__dict__.get(v.attr_name_in_mod_obj_container) if c is not None else None
    if isinstance(cur, dict):
        for k, x in cur.items():
            if x is v:
                return f"{v.id}[{k.name}]"
    return v.id


def graph(ns, live):
    nodes, bad, tnodes = {}, [], {}
    for v in held_values(ns, live):
        nid = v.id
        node = nodes.setdefault(nid, {"anc": set(), "chld": set()})
        tnode = tnodes.setdefault(entry_id(ns, v), {"anc": set(), "chld": set()})
        for kind, lst in (("anc", v.direct_ancestors_with_id), ("chld", v.direct_children_with_id)):
            for x in lst:
                if is_current(ns, x):
                    tnode[kind].add(entry_id(ns, x))
        for kind, lst in (("anc", v.direct_ancestors_with_id), ("chld", v.direct_children_with_id)):
            for x in lst:
                if not is_current(ns, x):
                    where = "detached" if x.modeling_obj_container is None else "superseded"
                    bad.append([nid, kind, where, str(x.label)[:60]])
                    continue
                if x.modeling_obj_container.name not in live or live[x.modeling_obj_container.name] is not x.modeling_obj_container:
                    bad.append([nid, kind, "object-not-in-model", x.id])
                    continue
                node[kind].add(x.id)
    return ({k: {"anc": sorted(v["anc"]), "chld": sorted(v["chld"])} for k, v in nodes.items()}, bad,
            {k: {"anc": sorted(v["anc"]), "chld": sorted(v["chld"])} for k, v in tnodes.items()})


def exported_graph(ns, live, model):
    system = live[efx.system_name(model)]
    js = ns.system_to_json(system, save_calculated_attributes=True)
    nodes = {}

    def visit(d):
        if isinstance(d, dict):
            if "id" in d and "direct_ancestors_with_id" in d:
                node = nodes.setdefault(d["id"], {"anc": set(), "chld": set()})
                node["anc"] |= set(d["direct_ancestors_with_id"])
                node["chld"] |= set(d["direct_children_with_id"])
            for x in d.values():
                visit(x)
    visit(js)
    return {k: {"anc": sorted(v["anc"]), "chld": sorted(v["chld"])} for k, v in nodes.items()}


def graph_event(ns, tid, seq, live, model, what):
    nodes, bad, tnodes = graph(ns, live)
    try:
        exp = exported_graph(ns, live, model)
        diff = [k for k in exp if k in nodes and exp[k] != nodes[k]]
    except Exception as ex:   # noqa: an export that fails is an observation
        diff = [f"export raised {type(ex).__name__}: {str(ex)[:100]}"]
    return {"tid": tid, "seq": seq, "ev": "Graph", "what": what, "nodes": nodes, "tnodes": tnodes, "detached_refs": bad[:8],
            "export_equal": not diff, "export_diff": diff[:5]}


def input_values(ns, live, model):
    out = []
    for n in sorted(efx.reachable(model)):
        for a in model[n]["inp"]:
            out.append((n, a, getattr(live[n], a)))
    return out


def empty_value_models():
    """systems in which some calculated values are empty (zero-duration journey, journey without step, step without
    job, job of an unused server) next to ordinary ones: empty operands must be recorded like any other"""
    out = []
    for variant in ("zero-duration", "no-step", "no-job"):
        m = {}
        m["sto1"] = efx.new_obj("Storage")
        m["sv1"] = efx.new_obj("Server", storage="sto1")
        m["j1"] = efx.new_obj("Job", server="sv1")
        m["j2"] = efx.new_obj("Job", server="sv1")
        m["s1"] = efx.new_obj("UsageJourneyStep", jobs=[] if variant == "no-job" else ["j1"],
                              user_time_spent=[0, "min"] if variant == "zero-duration" else [2, "min"])
        m["s2"] = efx.new_obj("UsageJourneyStep", jobs=["j2"], user_time_spent=[1, "min"])
        m["uj1"] = efx.new_obj("UsageJourney", uj_steps=[] if variant == "no-step" else ["s1"])
        m["uj2"] = efx.new_obj("UsageJourney", uj_steps=["s2"])
        m["d1"] = efx.new_obj("Device")
        m["n1"] = efx.new_obj("Network")
        m["c1"] = efx.new_obj("Country")
        m["up1"] = efx.new_obj("UsagePattern", usage_journey="uj1", network="n1", country="c1", devices=["d1"])
        m["up2"] = efx.new_obj("UsagePattern", usage_journey="uj2", network="n1", country="c1", devices=["d1"],
                               starts=[2, 1, 4])
        m["sys"] = efx.new_obj("System", usage_patterns=["up1", "up2"])
        out.append((variant, m))
    return out


def perturb_events(ns, out, tid, seq, seed, model, inputs, rng=None):
    events = []
    try:
        fresh = efx.build(ns, model)
    except Exception:   # noqa: the model a history ended on cannot be built from scratch (an edit that should have been refused
        return events, seq      # was accepted by the code under test): nothing to perturb -- the other clauses judge that history
    names = sorted(efx.reachable(model))
    snap0 = efx.snapshot(ns, fresh, names)
    nodes_f, _, _t = graph(ns, fresh)
    ids = {(n, a): f"{a}-in-{fresh[n].id}" for n in names for a in efx.explainable_attrs(ns, fresh[n])
           if a not in efx.BOOKKEEPING}
    todo = []
    for n, a in inputs:
        todo.append((n, a, None))
        if a == "data_storage_duration":
            # a change of regime: a duration longer than the modelled period (nothing expires) becomes two hours, a short one ten years
            mv = model[n]["inp"][a]
            try:
                long_one = float((mv[0] * ns.u(mv[1])).to(ns.u.hour).magnitude) > 24 * 30
            except Exception:   # noqa
                long_one = False
            todo.append((n, a, [2, "hour"] if long_one else [10, "year"]))
    for n, a, replacement in todo:
        m2 = copy.deepcopy(model)
        hour = {"s": 3600, "min": 60, "hour": 1}.get(m2[n]["inp"][a][1])
        if replacement is not None:
            m2[n]["inp"][a] = replacement
        elif a in ("user_time_spent", "request_duration") and hour:
            m2[n]["inp"][a][0] = m2[n]["inp"][a][0] + hour        # across an hour boundary: what comes later is placed another hour
        else:
            m2[n]["inp"][a][0] = m2[n]["inp"][a][0] * 1.37 + (0.5 if m2[n]["inp"][a][0] == 0 else 0)
        try:
            other = efx.build(ns, m2)
        except Exception:
            continue
        d = efx.diff(snap0, efx.snapshot(ns, other, names), names)
        changed = sorted({ids[(o, at)] for o, at in d if (o, at) in ids and not (o == n and at == a)})
        seq += 1
        events.append({"tid": tid, "seq": seq, "ev": "Perturb", "seed": seed, "input": ids[(n, a)],
                       "changed": changed, "nodes": nodes_f})
        out.nontrivial.add((seed, n, a))
    return events, seq


def run(tier, out):
    wd = work_dir("c08")
    try:
        tlc.stage_specs(wd)
        c01.run_model_check(out, wd, tier, graph=True)
        ns = efx.load()
        base = seed_from_env() * 100000
        n_hist, n_edits = (14, 6) if tier == "quick" else (250, 15)
        events, tid = [], 0
        log = efx.EventLog(ns)
        for seed in range(base, base + n_hist):
            rng = random.Random(seed)
            model = gen.random_model(rng)
            tid += 1
            try:
                h = history.LiveHistory(ns, log, tid, model)
            except Exception:
                continue
            seq = 0
            events.append(dict(graph_event(ns, tid, seq, h.live, h.model, "after-build"), seed=seed))
            for _ in range(n_edits):
                e = gen.random_edit(rng, h.model)
                ev = h.do(e, compare_with_rebuild=False)
                seq += 1
                if ev["ev"] == "Raised":
                    break
                events.append(dict(graph_event(ns, tid, seq, h.live, h.model, f"after-{e[0]}"), seed=seed))
                if rng.random() < 0.3:
                    from .. import simcheck
                    cl = simcheck.change_list(ns, rng, h.model, h.live, rng.choice(["input", "struct", "mixed"]))
                    lo, hi, _ = simcheck.period(ns, h.live, h.model)
                    if cl and cl[2] and lo is not None and hi > lo:
                        try:
                            sim = ns.ModelingUpdate(cl[0], (lo + (hi - lo) / 2).floor("h").to_pydatetime())
                            seq += 1
                            events.append(dict(graph_event(ns, tid, seq, h.live, h.model, "after-simulation"), seed=seed))
                            sim.set_updated_values()
                            seq += 1
                            events.append(dict(graph_event(ns, tid, seq, h.live, h.model, "simulation-set"), seed=seed))
                            sim.reset_values()
                            seq += 1
                            events.append(dict(graph_event(ns, tid, seq, h.live, h.model, "simulation-reset"), seed=seed))
                        except Exception:
                            pass
            # update order of every input, on the live (edited) system
            nodes, _bad, _t = graph(ns, h.live)
            for n, a, v in input_values(ns, h.live, h.model):
                seq += 1
                chain = []
                for x in v.attr_updates_chain:
                    chain.append(x.id)
                events.append({"tid": tid, "seq": seq, "ev": "Chain", "seed": seed, "input": v.id, "chain": chain, "nodes": nodes})
            # completeness by perturbation, on rebuilt systems (a fresh pair per input)
            names = sorted(efx.reachable(h.model))
            inputs = [(n, a) for n in names for a in h.model[n]["inp"]]
            rng.shuffle(inputs)
            durations = [x for x in inputs if x[1] in ("user_time_spent", "request_duration")]
            first = durations[:3] + [x for x in inputs if x[1] == "data_storage_duration"][:2]
            inputs = first + [x for x in inputs if x not in first]
            evs, seq = perturb_events(ns, out, tid, seq, seed, h.model, inputs[: (8 if tier == "quick" else 40)])
            events += evs
        for variant, m in empty_value_models():
            tid += 1
            names = sorted(efx.reachable(m))
            inputs = [(n, a) for n in names for a in m[n]["inp"]]
            evs, _ = perturb_events(ns, out, tid, 0, variant, m, inputs)
            events += evs
            live = efx.build(ns, m)
            events.append(dict(graph_event(ns, tid, 1000, live, m, "empty-values:" + variant), seed=variant))
        log.close()
        trace = wd + "/c08.ndjson"
        tracecheck.write_trace(trace, events, keys=("tid", "seq", "ev", "nodes", "tnodes", "detached_refs", "export_equal",
                                                      "export_diff", "input", "changed", "chain"))
        fails, _n, res2 = tracecheck.validate(wd, "Trace_Graph", trace, {}, timeout=6000)
        out.add_tlc(res2, "Trace_Graph on projected graphs, perturbations and update orders")
        out.traces += tid
        out.evaluations += len(events)
        kinds = {}
        for e in events:
            kinds[e["ev"]] = kinds.get(e["ev"], 0) + 1
        by = {(e["tid"], e["seq"]): e for e in events}
        for t, s, clause, data in fails:
            e = by.get((t, s), {})
            out.violation(f"{clause}:{e.get('what', e.get('ev'))}", {"clause": clause, "spec_says": data[:2000],
                                                                    "seed": e.get("seed"), "input": e.get("input")})
        for e in [x for x in events if x["ev"] == "Perturb"][:3]:
            out.sample({"seed": e["seed"], "input": e["input"], "changed": e["changed"][:6]})
        out.extra.update({"rule": "a case = one projected graph (after a step of a seeded history), one perturbed input of a "
                                  "rebuilt system, or the update order of one input; distinct by (seed, position / input)",
                          "events_per_kind": kinds})
        out.assumptions += ["the graph is judged at the level of value identifiers (what users inspect and export); entries "
                            "of one per-usage-pattern dictionary share an identifier",
                            "completeness is tested with one perturbation (x1.37) per sampled input"]
    finally:
        cleanup(wd)


def replay(path, out):
    run("quick", out)
