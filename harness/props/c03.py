"""C03 -- usage volumes are conserved from journey starts down to job load.

1. TLC: the conservation theorems on the lattice transcription (EFNumeric) over a small input domain
   (MC_Numeric, family "usage").
2. conformance: real systems built from seeded lattice inputs; every usage value of the real system
   (UTC starts, journeys in parallel, device energy, job occurrences / averages / data per usage pattern and
   across) is compared exactly with EFNumeric by TLC, and the conservation theorems are evaluated on the
   observed values themselves.
   Off the lattice: random systems whose usage patterns share journeys and live in zones with half-hour / 45-minute offsets --
   each *_across_usage_patterns series of every job must be the sum of its per-usage-pattern entries, instant by instant (AcrossSums).
3. a finer time lattice (minutes, seconds, milliseconds) for the two building blocks
   compute_nb_avg_hourly_occurrences and return_shifted_hourly_quantities, called directly.
"""
import random

from .. import efx, lattice, numcheck, tlc
from ..common import work_dir, cleanup, seed_from_env

USAGE_KINDS = ["utc", "par4", "dev_energy4", "occ", "avg4", "dt", "ds", "occ_x", "avg4_x", "dt_x", "ds_x"]


def call_events(ns, rng, n, tid0):
    """direct calls on fine time lattices"""
    from efootprint.core.usage.compute_nb_occurrences_in_parallel import compute_nb_avg_hourly_occurrences
    events = []
    grids = [("min", 60, [0, 1, 30, 59, 60, 61, 90, 120, 150, 179]), ("s", 3600, [1, 20, 3599, 3600, 3601, 5400]),
             ("ms", 3600000, [1, 500, 999, 1000, 3599999, 3600001])]
    for n_ in range(n):
        unit, tph, durs = rng.choice(grids)
        dur = rng.choice(durs)
        vals = [rng.choice([0, 1, 2, 5, 9]) for _ in range(rng.randint(1, 6))]
        off = rng.choice([0, 5, 30])
        src = efx.hourly(ns, vals, f"2025-01-{1 + off // 24:02d}T{off % 24:02d}:00:00")
        src.value.index = src.value.index.tz_localize("UTC")
        arg = lattice.series(ns, src, "dimensionless", 1, "arg")
        q = ns.SourceValue(dur * ns.u(unit))
        fn = rng.choice(["avg", "shift"])
        if fn == "avg":
            res = compute_nb_avg_hourly_occurrences(src, q)
            out = lattice.series(ns, res, "dimensionless", tph, "avg result")
        else:
            res = src.return_shifted_hourly_quantities(q)
            out = lattice.series(ns, res, "dimensionless", 1, "shift result")
        events.append({"tid": tid0 + n_, "seq": 0, "ev": "Call", "fn": fn, "arg": arg, "dur": dur, "tph": tph, "res": out,
                       "unit": unit})
    return events


def across_events(ns, rng, n, tid0):
    """random systems whose usage patterns live in zones with whole-hour, half-hour and 45-minute offsets and share journeys:
    for every job, each of the four *_across_usage_patterns series against its per-usage-pattern entries, instant by instant"""
    import math
    from .. import gen
    events = []
    pairs = [("hourly_occurrences_per_usage_pattern", "hourly_occurrences_across_usage_patterns"),
             ("hourly_avg_occurrences_per_usage_pattern", "hourly_avg_occurrences_across_usage_patterns"),
             ("hourly_data_transferred_per_usage_pattern", "hourly_data_transferred_across_usage_patterns"),
             ("hourly_data_stored_per_usage_pattern", "hourly_data_stored_across_usage_patterns")]

    def ser(v):
        p = efx.project_value(ns, v) if not isinstance(v, ns.EmptyExplainableObject) else ("E",)
        if p[0] != "H":
            return {}
        df = v.value
        f = efx._base_factor(ns, df.dtypes.iloc[0].units)
        return {int(t) // (60 * 10 ** 9): float(x) * f for t, x in zip(df.index.asi8, df["value"].values._data)}
    for k in range(n):
        model = gen.random_model(rng)
        ups = efx.names_of(model, "UsagePattern")
        cs = efx.names_of(model, "Country")
        if len(ups) >= 2:
            # two usage patterns on one journey, in countries whose offsets differ by a fraction of an hour
            model[ups[1]]["lnk"]["usage_journey"] = model[ups[0]]["lnk"]["usage_journey"]
            if len(cs) >= 2:
                model[ups[0]]["lnk"]["country"], model[ups[1]]["lnk"]["country"] = cs[0], cs[1]
                model[cs[0]]["opt"]["tz"] = rng.choice(["Europe/Paris", "UTC", "America/New_York"])
                model[cs[1]]["opt"]["tz"] = rng.choice(["Asia/Kolkata", "Asia/Kathmandu", "Australia/Lord_Howe"])
        try:
            live = efx.build(ns, model)
        except Exception:
            continue
        for j in sorted(efx.names_of(model, "Job")):
            if j not in efx.reachable(model):
                continue
            for per_a, across_a in pairs:
                per = {getattr(u_, "name", str(u_)): ser(x) for u_, x in getattr(live[j], per_a).items()}
                across = ser(getattr(live[j], across_a))
                vals = [abs(x) for d in list(per.values()) + [across] for x in d.values()]
                m = max(vals + [0.0])
                e10 = (int(math.floor(math.log10(m))) - 6) if m > 0 else 0
                sc = lambda d: {"t": sorted(d), "v": [int(round(d[t] / 10 ** e10)) for t in sorted(d)]}
                events.append({"tid": tid0 + k, "seq": len(events), "ev": "AcrossSums", "job": j, "attr": across_a,
                               "per": [sc(per[u_]) for u_ in sorted(per)], "across": sc(across),
                               "zones": sorted({model[c]["opt"]["tz"] for c in cs})})
    return events


def run(tier, out):
    wd = work_dir("c03")
    try:
        tlc.stage_specs(wd)
        numcheck.run_theorems(out, wd, "usage", numcheck.INVARIANTS["usage"], large=(tier == "thorough"))
        ns = efx.load()
        base = seed_from_env() * 100000
        n_models, n_calls = (150, 400) if tier == "quick" else (3000, 6000)
        events, _ = numcheck.random_events(ns, range(base, base + n_models), theorems=["usage"])
        # the same on systems edited in place by list edits that only change a multiplicity or an order (the same job, step
        # or device listed once more, steps reversed) and by edits of request durations, step durations and traffic
        n_hist = 30 if tier == "quick" else 600
        edited = numcheck.edited_events(ns, range(base + 60000, base + 60000 + n_hist), 3, theorems=["usage"],
                                        kinds=("dupjob", "dupstep", "reorder", "dupdev", "dur", "starts", "t", "t"))
        for e in edited:
            e["tid"] += 4 * 10 ** 6
        events += edited
        events += call_events(ns, random.Random(base + 7), n_calls, 10 ** 6)
        acr = across_events(ns, random.Random(base + 9), 12 if tier == "quick" else 200, 6 * 10 ** 6)
        events += acr
        fails, _notes, res = numcheck.validate(wd, events, focus=USAGE_KINDS)
        out.add_tlc(res, "Trace_Numeric: usage kinds of lattice systems + direct calls")
        built = [e for e in events if e["ev"] == "Model" and e["raised"] == "none"]
        out.traces += len(built)
        out.evaluations += sum(len(e["obs"]) for e in built) + n_calls
        for e in events:
            if e["ev"] == "Model":
                out.nontrivial.add(("model", e["seed"]))
            elif e["ev"] == "AcrossSums":
                out.nontrivial.add(("across", e["tid"], e["job"], e["attr"]))
            else:
                out.nontrivial.add(("call", e["fn"], e["dur"], e["tph"], str(e["arg"])))
        numcheck.judge(out, events, fails)
        for e in built[:3]:
            out.sample({"seed": e["seed"], "I": {k: e["I"][k] for k in ("t", "job", "up")},
                        "observed": [o for o in e["obs"] if o["k"] in ("occ", "avg4")][:3]})
        out.sample([e for e in events if e["ev"] == "Call"][0])
        out.extra["across_usage_pattern_sums_checked"] = len(acr)
        out.extra.update({"rule": "a case = one real system built from lattice inputs (every usage value compared exactly "
                                  "with the TLA+ transcription, conservation theorems evaluated on the observed values) or "
                                  "one direct call of a building block on a minute/second/millisecond lattice; distinct by "
                                  "seed resp. by arguments",
                          "models_built": len(built), "direct_calls": n_calls,
                          "models_observed_after_in_place_list_edits": len([e for e in edited if e["seq"] > 0]),
                          "models_that_raised": sum(1 for e in events if e["ev"] == "Model" and e["raised"] != "none")})
        out.assumptions += ["system-level inputs lie on the lattice of EFNumeric (durations multiples of 15 min, data "
                            "amounts multiples of 6 kB); other durations are covered by the direct calls only",
                            "pandas shift/add semantics trusted as transcribed (Shift, Add with fill 0)"]
    finally:
        cleanup(wd)


def replay(path, out):
    run("quick", out)
