"""Validate recorded traces with TLC (Trace_*.tla) and turn its verdict lines into violations."""
import json
import os
import re
import shutil

from . import tlc
from .common import MachineryError

_RE_LINE = re.compile(r'^"(FAIL|NOTE)\|(\d+)\|(\d+)\|([^|]+)\|(.*)"$')

TRACE_KEYS = ("tid", "seq", "ev", "T", "T2", "changes", "obj_chain", "attr_chain", "changed", "stale",
              "prev_totals_ok", "init_totals_ok", "composite", "n_update_begin", "n_nonempty_updates", "edit_kind")


def write_trace(path, events, keys=TRACE_KEYS):
    with open(path, "w") as f:
        for ev in events:
            f.write(json.dumps({k: ev[k] for k in keys if k in ev}) + "\n")


def validate(workdir, module, trace_path, constants, timeout=3000, workers=1):
    """Run the trace specification on a trace file. Returns (fails, notes, tlc result);
    fails/notes are lists of (tid, seq, clause, data-text)."""
    n_events = sum(1 for _ in open(trace_path))
    cfg = "SPECIFICATION Spec\nCONSTANTS\n"
    cfg += f"  TraceFile = {tlc.tla_str(os.path.basename(trace_path))}\n"
    for k, v in constants.items():
        cfg += f"  {k} = {v}\n"
    cfg += "POSTCONDITION AllConsumed\n"
    keep = os.environ.get("VERIF_KEEP_TRACES")
    if keep:        # used by the trace-corruption self-test (harness/selftest.py)
        os.makedirs(keep, exist_ok=True)
        k = len([f for f in os.listdir(keep) if f.endswith(".meta.json")])
        shutil.copy(trace_path, os.path.join(keep, f"{k}.ndjson"))
        with open(os.path.join(keep, f"{k}.meta.json"), "w") as f:
            json.dump({"module": module, "constants": constants}, f)
    res = tlc.run_tlc(workdir, module, cfg, workers=workers, timeout=timeout)
    if res.error and not res.error.startswith("postcondition"):
        raise MachineryError(f"trace validation ({module}) did not run to the end: {res.error}\n{res.out[-3000:]}")
    if res.timed_out:
        raise MachineryError(f"trace validation ({module}) timed out")
    if res.error:
        raise MachineryError(f"trace specification did not consume the whole trace ({n_events} events):\n"
                             f"{res.out[-3000:]}")
    fails, notes = [], []
    for ln in res.out.splitlines():
        m = _RE_LINE.match(ln.strip())
        if m:
            rec = (int(m.group(2)), int(m.group(3)), m.group(4), m.group(5))
            (fails if m.group(1) == "FAIL" else notes).append(rec)
    return fails, notes, res
