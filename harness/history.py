"""Run seeded edit histories against the real code and record one trace event per operation."""
import random
import signal
import traceback

from . import efx, gen


class Hang(Exception):
    pass


def _alarm(*_a):
    raise Hang("operation did not terminate within the time limit")


def change_json(model, e):
    """the change list of an edit in the vocabulary of the specification"""
    k = e[0]
    if k == "group":
        out = []
        for x in e[1]:
            out += change_json(model, x)
        return out
    if k == "input":
        return [{"kind": "input", "slot": [e[1], e[2], "-"]}]
    if k == "opt":
        return [{"kind": "input", "slot": [e[1], efx.OPT_ATTR[e[2]], "-"]}]
    if k == "link":
        return [{"kind": "link", "obj": e[1], "attr": e[2], "old": model[e[1]]["lnk"][e[2]], "new": e[3]}]
    if k == "list":
        return [{"kind": "list", "obj": e[1], "attr": e[2], "old": list(model[e[1]]["lst"][e[2]]), "new": list(e[3])}]
    if k == "listop":
        old = list(model[e[1]]["lst"][e[2]])
        new = efx.pylist_op(list(old), e[3], e[4])
        return [{"kind": "list", "obj": e[1], "attr": e[2], "old": old, "new": new}]
    if k in ("add_up", "del_up"):
        sysn = efx.system_name(model)
        old = list(model[sysn]["lst"]["usage_patterns"])
        new = old + [e[1]] if k == "add_up" else [x for x in old if x != e[1]]
        return [{"kind": "list", "obj": "sys", "attr": "usage_patterns", "old": old, "new": new}]
    raise ValueError(e)


def totals(ns, system):
    return (efx.project_value(ns, system.total_energy_footprint_sum_over_period),
            efx.project_value(ns, system.total_fabrication_footprint_sum_over_period))


def totals_equal(a, b):
    return all(efx.values_equal(x, y, rtol=1e-9, atol=1e-9) for x, y in zip(a, b))


class LiveHistory:
    """One live system, edited step by step; every accepted edit is compared with a rebuild."""

    def __init__(self, ns, log, tid, model, op_timeout=60):
        self.ns, self.log, self.tid = ns, log, tid
        self.model = model
        self.seq = 0
        self.op_timeout = op_timeout
        self.live = efx.build(ns, model)
        self.sysn = efx.system_name(model)
        self.init_totals = totals(ns, self.live[self.sysn])
        self.events = []
        self.events.append({"tid": tid, "seq": 0, "ev": "Create", "T": efx.topo_json(model)})
        signal.signal(signal.SIGALRM, _alarm)

    def names(self, model=None):
        return sorted(efx.reachable(model or self.model))

    def do(self, edit, via_update=False, compare_with_rebuild=True):
        """Apply one edit to the live system. Returns the recorded event (dict)."""
        ns, log = self.ns, self.log
        expect_refusal = edit[0] == "refused"      # an edit the code must refuse (a capacity check fails while recomputing)
        if expect_refusal:
            edit = edit[1]
        self.seq += 1
        system = self.live[self.sysn]
        pre_totals = totals(ns, system)
        pre_names = sorted(n for n in self.live)
        pre_snap = efx.snapshot(ns, self.live, pre_names)
        ev = {"tid": self.tid, "seq": self.seq, "ev": "Update", "edit": edit, "T": efx.topo_json(self.model),
              "changes": change_json(self.model, edit), "composite": edit[0] in ("add_up", "del_up")}
        log.clear()
        try:
            signal.alarm(self.op_timeout)
            efx.apply_edit_live(ns, self.model, self.live, edit, via_update=via_update)
            signal.alarm(0)
        except Exception as ex:   # noqa: an edit that raises is reported to the caller, never swallowed
            signal.alarm(0)
            ev["ev"] = "Raised"
            ev["exc"] = type(ex).__name__
            ev["msg"] = str(ex)[:300]
            ev["phases"] = log.names()
            ev["tb"] = traceback.format_exc()[-1500:]
            if expect_refusal:
                # a refused edit is no edit: every value must be what it was, which is what a rebuilt system computes
                ev["ev"] = "Refused"
                names = self.names()
                try:
                    post_snap = efx.snapshot(ns, self.live, pre_names)
                    ev["changed"] = efx.diff_slots(pre_snap, post_snap, pre_names)
                    ev["stale"] = []
                    if compare_with_rebuild:
                        fresh_snap = efx.snapshot(ns, efx.build(ns, self.model), names)
                        ev["stale"] = efx.diff_slots(post_snap, fresh_snap, names)
                except Exception as ex2:   # noqa: what the refused edit left cannot even be read
                    ev["changed"] = [[edit[1], "<unreadable after the refused edit: %s>" % type(ex2).__name__, "-"]]
                    ev["stale"] = []
            self.events.append(ev)
            return ev
        hook = list(log.events)
        new_model = efx.apply_edit_abstract(self.model, edit)
        ev["T2"] = efx.topo_json(new_model)
        chains = [r for r in hook if r["ev"] == "chains"]
        ev["obj_chain"], ev["attr_chain"] = [], []
        for r in chains:
            ev["obj_chain"] += r["obj_chain"]
            ev["attr_chain"] += r["attr_chain"]
        # explicit object computations outside a ModelingUpdate (self_delete)
        computed = [r["obj"] for r in hook if r["ev"] == "compute_object"]
        if edit[0] == "del_up":
            for o in computed:
                if o in self.live:
                    ev["attr_chain"] += [[o, a] for a in self.live[o].calculated_attributes]
        seen, dedup = set(), []
        for it in reversed(ev["attr_chain"]):      # keep the last occurrence, as the code does
            if tuple(it) not in seen:
                seen.add(tuple(it))
                dedup.append(it)
        ev["attr_chain"] = list(reversed(dedup))
        nonempty_updates = [r for r in hook if r["ev"] == "parsed" and r["n_changes"] > 0]
        ev["n_updates_with_system"] = len([r for r in nonempty_updates if r["has_system"]])
        ev["n_update_begin"] = len([r for r in hook if r["ev"] == "update_begin"])
        ev["n_nonempty_updates"] = len(nonempty_updates)
        ev["edit_kind"] = edit[0] + (":" + edit[3] if edit[0] == "listop" else "")
        # whether the edit is an edit of the live system is decided on the abstract model (some changed object was reachable
        # from the system before the edit), not by asking the implementation
        parts = edit[1] if edit[0] == "group" else [edit]
        pre_reach = set(efx.reachable(self.model)) | {self.sysn}
        touches_system = any(len(x) > 1 and isinstance(x[1], str) and x[1] in pre_reach for x in parts)
        ev["touches_system"] = touches_system
        system = self.live[self.sysn]
        if len(nonempty_updates) == 1 and touches_system:
            prev = (efx.project_value(ns, system.previous_total_energy_footprints_sum_over_period),
                    efx.project_value(ns, system.previous_total_fabrication_footprints_sum_over_period))
            ev["prev_totals_ok"] = totals_equal(prev, pre_totals)
        else:
            ev["prev_totals_ok"] = True
        init = (efx.project_value(ns, system.initial_total_energy_footprints_sum_over_period),
                efx.project_value(ns, system.initial_total_fabrication_footprints_sum_over_period))
        ev["init_totals_ok"] = totals_equal(init, self.init_totals)
        names = self.names(new_model)
        post_snap = efx.snapshot(ns, self.live, sorted(self.live))
        ev["changed"] = efx.diff_slots(pre_snap, post_snap, [n for n in sorted(self.live) if n in pre_snap])
        topo = efx.topology(ns, self.live)
        ev["links_ok"] = all(topo[n]["lnk"] == new_model[n]["lnk"] and topo[n]["lst"] == new_model[n]["lst"]
                             for n in names)
        if compare_with_rebuild:
            try:
                fresh = efx.build(ns, new_model)
                fresh_snap = efx.snapshot(ns, fresh, names)
                ev["stale"] = efx.diff_slots(post_snap, fresh_snap, names)
                ev["rebuild"] = "ok"
            except Exception as ex:    # the final state cannot be built from scratch at all
                ev["stale"] = []
                ev["rebuild"] = f"raised {type(ex).__name__}: {str(ex)[:200]}"
        else:
            ev["stale"] = []
            ev["rebuild"] = "skipped"
        self.model = new_model
        self.events.append(ev)
        return ev


def run_histories(ns, seeds, n_edits, kinds=None, max_per_class=3, on_event=None, stop_on_raise=True):
    """Generator of LiveHistory objects, one per seed, each edited n_edits times."""
    log = efx.EventLog(ns)
    for tid, seed in enumerate(seeds, start=1):
        rng = random.Random(seed)
        model = gen.random_model(rng, max_per_class=max_per_class)
        if seed % 2:        # defaults (no initial storage need, small base consumptions) hide what is added in place
            for sto in efx.names_of(model, "Storage"):
                model[sto]["inp"]["base_storage_need"] = [rng.choice([1, 5]), "TB"]
        try:
            h = LiveHistory(ns, log, tid, model)
        except Exception as ex:
            yield ("build-failed", seed, model, ex)
            continue
        refused_before = False
        last_input = None          # (object, attribute, value before the edit) of the previous input edit
        for _ in range(n_edits):
            e = gen.random_edit(rng, h.model, kinds)
            if last_input is not None and rng.random() < (0.7 if refused_before else 0.3):
                # an edit is often followed by another edit of the same input: its undo, or a second new value
                o, a, before = last_input
                cur = h.model[o]["inp"][a]
                e = ("input", o, a, list(before) if rng.random() < 0.5 and before != cur else [cur[0] * 3 + (2 if cur[0] == 0 else 0), cur[1]])
            if e[0] == "refused":
                last_input = None
            elif e[0] == "input" and e[1] in h.model and e[2] in h.model[e[1]]["inp"]:
                last_input = (e[1], e[2], list(h.model[e[1]]["inp"][e[2]]))
            else:
                last_input = None
            ev = h.do(e, via_update=rng.random() < 0.3)
            refused_before = ev["ev"] == "Refused"
            if on_event:
                on_event(h, ev)
            if ev["ev"] == "Raised" and stop_on_raise:
                break
            if ev["ev"] == "Refused":
                last_input = (e[1][1], e[1][2], list(h.model[e[1][1]]["inp"][e[1][2]]))    # then an accepted value, often
                if ev["stale"] or ev["changed"]:
                    break
            if ev["ev"] == "Update" and ev["stale"]:
                break       # the live system is wrong from here on: later events would only echo this one
        yield ("ok", seed, h, None)
    log.close()
