"""Lattice models: abstract models whose inputs lie on the integer lattice of spec/EFNumeric.tla, the
inputs record `I` the specification evaluates, and the extraction of every calculated value of the
real system as scaled integers (a value that is not within 1e-6 of the lattice is reported)."""
import math

from . import efx

TICKS = 4
LIFESPAN_H = 1000
TZ_OFFSETS = {"UTC": 0, "Etc/GMT-2": 2, "Etc/GMT+5": -5, "Etc/GMT-9": 9}
EPOCH_2025 = 482136          # hours from 1970-01-01 to 2025-01-01 00:00


class OffLattice(Exception):
    pass


def lattice_objects(rng, n_ups=None, allow_delete=True, server_types=("autoscaling", "serverless", "on-premise"),
                    with_fixed=False):
    """random abstract model + lattice inputs. Returns (model, I)."""
    m, I = {}, {"t": {}, "job": {}, "sv": {}, "st": {}, "net": {}, "ci": {}, "tz": {}, "dev": {}, "up": {}}
    n_srv = rng.randint(1, 2)
    for i in range(1, n_srv + 1):
        cap = rng.choice([600, 1200, 6000])
        # storage duration in minutes: whole hours and durations that are not (the code keeps data for ceil(duration) hours);
        # "durh" is that ceiling, "durmin" what the code is given
        durmin = rng.choice([60, 120, 180, 60000, 150, 80, 200, 61])
        st = {"repl": rng.choice([1, 2, 3]), "durh": -(-durmin // 60), "durmin": durmin, "base": rng.choice([0, 0, 600, 5000]),
              "cap": cap, "fabrate": rng.choice([20, 160]), "power": rng.choice([2, 13]), "idle": rng.choice([0, 1]),
              "fixed": 0}
        if with_fixed and rng.random() < 0.35:
            st["fixed"] = rng.choice([1, 3, 50])
        I["st"][f"sto{i}"] = st
        m[f"sto{i}"] = efx.new_obj(
            "Storage", fixed_nb=(st["fixed"] or None),
            carbon_footprint_fabrication_per_storage_capacity=[st["fabrate"] / cap, "kg/kB"],
            power_per_storage_capacity=[st["power"] / cap, "W/kB"], lifespan=[LIFESPAN_H, "hour"],
            idle_power=[st["idle"], "W"], storage_capacity=[cap, "kB"],
            data_replication_factor=[st["repl"], "dimensionless"], data_storage_duration=[st["durmin"], "min"],
            base_storage_need=[st["base"], "kB"])
        avail_ram = rng.choice([120, 60, 40, 24])
        avail_cpu = rng.choice([120, 60, 30])
        util = rng.choice([100, 50])
        baseram, basecpu = rng.choice([0, 20]), rng.choice([0, 10])
        sv = {"type": rng.choice(server_types), "fixed": 0, "fabrate": rng.choice([600, 1000]),
              "power": rng.choice([300, 400]), "idle": rng.choice([50, 100]), "pue": rng.choice([1, 2]),
              "ci": rng.choice([10, 20]), "util": util, "ram": (avail_ram + baseram) * 100 // util,
              "baseram": baseram, "cpu": (avail_cpu + basecpu) * 100 // util, "basecpu": basecpu}
        if with_fixed and sv["type"] == "on-premise" and rng.random() < 0.6:
            sv["fixed"] = rng.choice([1, 2, 5, 40])
        if with_fixed and rng.random() < 0.06:
            sv["baseram"] = sv["ram"] * util // 100 + 10        # more than the instance offers: must be refused
        I["sv"][f"sv{i}"] = sv
        baseram = sv["baseram"]
        m[f"sv{i}"] = efx.new_obj(
            "Server", storage=f"sto{i}", server_type=sv["type"], fixed_nb=(sv["fixed"] or None),
            carbon_footprint_fabrication=[sv["fabrate"], "kg"],
            power=[sv["power"], "W"], lifespan=[LIFESPAN_H, "hour"], idle_power=[sv["idle"], "W"],
            ram=[sv["ram"] * 100, "MB"], compute=[sv["cpu"] / 10, "cpu_core"],
            power_usage_effectiveness=[sv["pue"], "dimensionless"], average_carbon_intensity=[sv["ci"], "g/kWh"],
            server_utilization_rate=[util / 100, "dimensionless"], base_ram_consumption=[baseram * 100, "MB"],
            base_compute_consumption=[basecpu / 10, "cpu_core"])
    n_job = rng.randint(1, 3)
    for i in range(1, n_job + 1):
        deleting = allow_delete and rng.random() < 0.2
        jb = {"dur": rng.choice([1, 2, 4, 6, 10]), "dt": rng.choice([6, 60, 150 * 6]),
              "ds": -rng.choice([6, 12]) if deleting else rng.choice([0, 6, 60, 600]),
              "ram": rng.choice([1, 2]), "cpu": rng.choice([1, 3])}
        I["job"][f"j{i}"] = jb
        m[f"j{i}"] = efx.new_obj("Job", server=f"sv{rng.randint(1, n_srv)}", data_transferred=[jb["dt"], "kB"],
                                 data_stored=[jb["ds"], "kB"], request_duration=[15 * jb["dur"], "min"],
                                 compute_needed=[jb["cpu"] / 10, "cpu_core"], ram_needed=[jb["ram"] * 100, "MB"])
    n_step = rng.randint(1, 3)
    for i in range(1, n_step + 1):
        I["t"][f"s{i}"] = rng.choice([0, 15, 30, 45, 60, 75, 90, 150])
        jobs = [f"j{rng.randint(1, n_job)}" for _ in range(rng.choice([0, 1, 1, 2, 3]))]
        m[f"s{i}"] = efx.new_obj("UsageJourneyStep", jobs=jobs, user_time_spent=[I["t"][f"s{i}"], "min"])
    n_uj = rng.randint(1, 2)
    for i in range(1, n_uj + 1):
        steps = [f"s{rng.randint(1, n_step)}" for _ in range(rng.choice([1, 1, 2, 3]))]
        m[f"uj{i}"] = efx.new_obj("UsageJourney", uj_steps=steps)
    for i in (1, 2):
        fut_inv = rng.choice([1, 2, 4])
        rate0 = rng.choice([30, 150])
        I["dev"][f"d{i}"] = {"power": rng.choice([1, 50]), "fabrate": rate0 * fut_inv}
        m[f"d{i}"] = efx.new_obj("Device", carbon_footprint_fabrication=[rate0, "kg"], lifespan=[LIFESPAN_H, "hour"],
                                 power=[I["dev"][f"d{i}"]["power"], "W"],
                                 fraction_of_usage_time=[24 // fut_inv, "hour/day"])
    for i in (1, 2):
        I["net"][f"n{i}"] = rng.choice([1, 2, 5])
        m[f"n{i}"] = efx.new_obj("Network", bandwidth_energy_intensity=[I["net"][f"n{i}"] * 1e-4, "Wh/kB"])
    for i in (1, 2):
        tz = rng.choice(sorted(TZ_OFFSETS))
        I["ci"][f"c{i}"] = rng.choice([10, 50, 85])
        I["tz"][f"c{i}"] = TZ_OFFSETS[tz]
        m[f"c{i}"] = efx.new_obj("Country", tz=tz, average_carbon_intensity=[I["ci"][f"c{i}"], "g/kWh"])
    n_up = n_ups or rng.randint(1, 3)
    ups = []
    for i in range(1, n_up + 1):
        n = rng.randint(2, 6)
        vals = [rng.choice([0, 1, 2, 3, 5]) for _ in range(n)]
        if not any(vals):
            vals[0] = 2
        off_h = rng.choice([0, 0, 3, 10, 30])
        I["up"][f"up{i}"] = {"start": EPOCH_2025 + off_h, "vals": vals}
        day, hour = 1 + off_h // 24, off_h % 24
        m[f"up{i}"] = efx.new_obj("UsagePattern", usage_journey=f"uj{rng.randint(1, n_uj)}",
                                  network=f"n{rng.randint(1, 2)}", country=f"c{rng.randint(1, 2)}",
                                  devices=[f"d{rng.randint(1, 2)}" for _ in range(rng.choice([1, 2]))],
                                  starts=vals, start=f"2025-01-{day:02d}T{hour:02d}:00:00")
        ups.append(f"up{i}")
    m["sys"] = efx.new_obj("System", usage_patterns=ups)
    return m, I


# kind -> (attribute, unit, scale factor or function of (I, obj))
def _cap(I, o):
    return I["st"][o]["cap"]


KINDS = {
    "UsagePattern": [("utc", "utc_hourly_usage_journey_starts", "dimensionless", 1),
                     ("par4", "nb_usage_journeys_in_parallel", "dimensionless", 4),
                     ("dev_energy4", "devices_energy", "Wh", 4),
                     ("dev_efp4", "devices_energy_footprint", "mg", 4),
                     ("dev_fab4", "devices_fabrication_footprint", "g", 4),
                     ("dev_efp4", "energy_footprint", "mg", 4),
                     ("dev_fab4", "instances_fabrication_footprint", "g", 4)],
    "Job": [("occ", "hourly_occurrences_per_usage_pattern", "dimensionless", 1),
            ("avg4", "hourly_avg_occurrences_per_usage_pattern", "dimensionless", 4),
            ("dt", "hourly_data_transferred_per_usage_pattern", "kB", 1),
            ("ds", "hourly_data_stored_per_usage_pattern", "kB", 1),
            ("occ_x", "hourly_occurrences_across_usage_patterns", "dimensionless", 1),
            ("avg4_x", "hourly_avg_occurrences_across_usage_patterns", "dimensionless", 4),
            ("dt_x", "hourly_data_transferred_across_usage_patterns", "kB", 1),
            ("ds_x", "hourly_data_stored_across_usage_patterns", "kB", 1)],
    "Network": [("net_fp", "energy_footprint", "g", 1e7)],
    "Server": [("ram_need4", "hour_by_hour_ram_need", "MB", 4 / 100), ("cpu_need4", "hour_by_hour_compute_need", "cpu_core", 40),
               ("raw480", "raw_nb_of_instances", "dimensionless", 480), ("nb480", "nb_of_instances", "dimensionless", 480),
               ("srv_fab480", "instances_fabrication_footprint", "g", 480), ("srv_energy480", "instances_energy", "Wh", 480),
               ("srv_efp480", "energy_footprint", "mg", 480)],
    "Storage": [("sto_delta", "storage_delta", "kB", 1), ("sto_cum", "full_cumulative_storage_need", "kB", 1),
                ("sto_nb", "nb_of_instances", "dimensionless", 1), ("sto_active_cap", "nb_of_active_instances", "dimensionless", _cap),
                ("sto_fab", "instances_fabrication_footprint", "g", 1), ("sto_energy_cap", "instances_energy", "Wh", _cap),
                ("sto_efp_cap", "energy_footprint", "mg", _cap)],
}


def to_lattice(x, what):
    r = round(x)
    if abs(x - r) > 1e-6 * max(1.0, abs(x)):
        raise OffLattice(f"{what}: {x!r} is not on the lattice")
    if abs(r) >= 2 ** 30:
        raise OffLattice(f"{what}: {r} does not fit TLC's integers")
    return int(r)


def series(ns, v, unit, scale, what):
    """{"h": [...], "v": [...]} of an hourly value (or an empty value) in `unit`, times `scale`"""
    if isinstance(v, ns.EmptyExplainableObject):
        return {"h": [], "v": []}
    if not isinstance(v, ns.ExplainableHourlyQuantities):
        raise OffLattice(f"{what}: not an hourly value ({type(v).__name__})")
    df = v.value
    units = df.dtypes.iloc[0].units
    f = efx._base_factor(ns, units) / efx._base_factor(ns, ns.u(unit).units)
    idx = df.index
    if idx.tz is None:
        raise OffLattice(f"{what}: naive index")
    hours = [int(t) // efx.EPOCH_NS_PER_H for t in idx.asi8]
    vals = [to_lattice(float(x) * f * scale, f"{what}@{h}") for x, h in zip(df["value"].values._data, hours)]
    return {"h": hours, "v": vals}


def observe(ns, live, model, I, names=None):
    """every calculated hourly value of the reachable objects as lattice integers"""
    obs = []
    for n in (names or sorted(efx.reachable(model))):
        cls = model[n]["cls"]
        for kind, attr, unit, scale in KINDS.get(cls, []):
            sc = scale(I, n) if callable(scale) else scale
            val = getattr(live[n], attr)
            if isinstance(val, dict):
                for up, x in val.items():
                    obs.append(dict(k=kind, o=n, u=up.name, a=attr, **series(ns, x, unit, sc, f"{n}.{attr}[{up.name}]")))
            else:
                obs.append(dict(k=kind, o=n, u="-", a=attr, **series(ns, val, unit, sc, f"{n}.{attr}")))
    return obs


def lattice_edit(rng, model, I, kinds=("ram", "cpu", "starts", "fixed", "ds", "dur", "type", "type", "t", "overload", "util")):
    """one edit that keeps the model on the lattice: returns (edit for efx.apply_edit_*, new I)"""
    import copy
    I2 = copy.deepcopy(I)
    jobs = sorted(I["job"])
    kind = rng.choice(list(kinds))
    if kind in ("dupjob", "dupstep", "reorder", "dupdev"):
        # list edits that add or remove no object: only a multiplicity or an order changes
        if kind == "dupjob":
            cands = [s for s in sorted(I["t"]) if model[s]["lst"]["jobs"] and len(model[s]["lst"]["jobs"]) < 4]
            if cands:
                s = rng.choice(cands)
                return ("listop", s, "jobs", "append", [rng.choice(model[s]["lst"]["jobs"])]), I2
        elif kind == "dupstep":
            cands = [n for n in sorted(model) if model[n]["cls"] == "UsageJourney" and len(model[n]["lst"]["uj_steps"]) < 4]
            if cands:
                uj = rng.choice(cands)
                return ("listop", uj, "uj_steps", "append", [rng.choice(model[uj]["lst"]["uj_steps"])]), I2
        elif kind == "reorder":
            cands = [n for n in sorted(model) if model[n]["cls"] == "UsageJourney"
                     and model[n]["lst"]["uj_steps"] != list(reversed(model[n]["lst"]["uj_steps"]))]
            if cands:
                uj = rng.choice(cands)
                return ("list", uj, "uj_steps", list(reversed(model[uj]["lst"]["uj_steps"]))), I2
        else:
            up = rng.choice(sorted(I["up"]))
            if len(model[up]["lst"]["devices"]) < 3:
                return ("listop", up, "devices", "append", [rng.choice(model[up]["lst"]["devices"])]), I2
        return lattice_edit(rng, model, I, [k for k in kinds if k != kind] or ("starts",))
    if kind == "t":         # the time spent in a step (moves every later job of the journey)
        s = rng.choice(sorted(I["t"]))
        I2["t"][s] = rng.choice([x for x in (0, 15, 30, 45, 60, 75, 90, 150) if x != I["t"][s]])
        return ("input", s, "user_time_spent", [I2["t"][s], "min"]), I2
    if kind == "util":      # the share of an instance that may be used
        v = rng.choice(sorted(I["sv"]))
        I2["sv"][v]["util"] = 50 if I["sv"][v]["util"] == 100 else 100
        return ("input", v, "server_utilization_rate", [I2["sv"][v]["util"] / 100, "dimensionless"]), I2
    if kind == "burst":     # traffic x 50: fixed instance counts are exceeded late in the recomputation (then refused)
        u = rng.choice(sorted(I["up"]))
        I2["up"][u]["vals"] = [x * 50 for x in I["up"][u]["vals"]]
        return ("opt", u, "starts", [I2["up"][u]["vals"], model[u]["opt"]["start"]]), I2
    if kind == "overload":  # a base consumption above what an instance offers: must be refused (and change nothing)
        v = rng.choice(sorted(I["sv"]))
        I2["sv"][v]["baseram"] = I["sv"][v]["ram"] * I["sv"][v]["util"] // 100 + 10
        return ("input", v, "base_ram_consumption", [I2["sv"][v]["baseram"] * 100, "MB"]), I2
    if kind == "type":      # the sizing rule of a server
        cands = [v for v in sorted(I["sv"]) if not I["sv"][v]["fixed"]]
        if not cands:
            return lattice_edit(rng, model, I, [k for k in kinds if k != kind] or ("starts",))
        v = rng.choice(cands)
        I2["sv"][v]["type"] = rng.choice([x for x in ("autoscaling", "serverless", "on-premise") if x != I["sv"][v]["type"]])
        return ("opt", v, "server_type", I2["sv"][v]["type"]), I2
    if kind in ("ci", "svci", "net", "pue"):
        table, key, choices = {"ci": (I2["ci"], None, [10, 50, 85]), "svci": (I2["sv"], "ci", [10, 20]),
                               "net": (I2["net"], None, [1, 2, 5]), "pue": (I2["sv"], "pue", [1, 2])}[kind]
        o = rng.choice(sorted(table))
        cur = table[o] if key is None else table[o][key]
        new = rng.choice([x for x in choices if x != cur])
        if key is None:
            table[o] = new
        else:
            table[o][key] = new
        if kind == "ci" or kind == "svci":
            return ("input", o, "average_carbon_intensity", [new, "g/kWh"]), I2
        if kind == "net":
            return ("input", o, "bandwidth_energy_intensity", [new * 1e-4, "Wh/kB"]), I2
        return ("input", o, "power_usage_effectiveness", [new, "dimensionless"]), I2
    if kind in ("ram", "cpu"):
        j = rng.choice(jobs)
        f = rng.choice([2, 5, 20, 60])
        I2["job"][j][kind] *= f
        if kind == "ram":
            return ("input", j, "ram_needed", [I2["job"][j]["ram"] * 100, "MB"]), I2
        return ("input", j, "compute_needed", [I2["job"][j]["cpu"] / 10, "cpu_core"]), I2
    if kind == "starts":
        u = rng.choice(sorted(I["up"]))
        f = rng.choice([2, 3, 10])
        I2["up"][u]["vals"] = [x * f for x in I["up"][u]["vals"]]
        return ("opt", u, "starts", [I2["up"][u]["vals"], model[u]["opt"]["start"]]), I2
    if kind == "fixed":
        cands = [v for v in sorted(I["sv"]) if I["sv"][v]["type"] == "on-premise"]
        if not cands:
            return lattice_edit(rng, model, I, kinds)
        v = rng.choice(cands)
        I2["sv"][v]["fixed"] = rng.choice([1, 2, 5, 40])
        return ("opt", v, "fixed_nb", I2["sv"][v]["fixed"]), I2
    if kind == "ds":
        j = rng.choice(jobs)
        I2["job"][j]["ds"] = rng.choice([0, 6, 60, 600, -6])
        if I2["job"][j]["ds"] == I["job"][j]["ds"]:
            return lattice_edit(rng, model, I, kinds)
        return ("input", j, "data_stored", [I2["job"][j]["ds"], "kB"]), I2
    j = rng.choice(jobs)
    I2["job"][j]["dur"] = rng.choice([1, 2, 4, 6, 10])
    if I2["job"][j]["dur"] == I["job"][j]["dur"]:
        return lattice_edit(rng, model, I)
    return ("input", j, "request_duration", [15 * I2["job"][j]["dur"], "min"]), I2
