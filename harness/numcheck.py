"""Shared driver of the numeric (lattice) conformance checks: C02, C03, C04, C12."""
import json
import os
import random

from . import efx, lattice, tlc, tracecheck
from .common import MachineryError


def classify_raise(ex):
    msg = str(ex)
    if "negative cumulative storage need" in msg:
        return "negative-storage"
    if "instances computed from its resources need is superior" in msg:
        return "storage-fixed-count" if "user/server" in msg else "fixed-count"
    if "has available capacity of" in msg:
        return "capacity"
    return f"other:{type(ex).__name__}:{msg[:120]}"


def model_event(ns, tid, seq, model, I, live=None):
    """build (unless given) and observe one lattice model"""
    ev = {"tid": tid, "seq": seq, "ev": "Model", "T": efx.topo_json(model), "I": I, "raised": "none", "obs": []}
    try:
        if live is None:
            live = efx.build(ns, model)
        ev["obs"] = lattice.observe(ns, live, model, I)
    except lattice.OffLattice:
        raise
    except Exception as ex:     # noqa: what the model raises is part of the observation
        ev["raised"] = classify_raise(ex)
    return ev, live


def validate(workdir, events, focus=()):
    trace = os.path.join(workdir, "numeric.ndjson")
    with open(trace, "w") as f:
        for ev in events:
            f.write(json.dumps(ev) + "\n")
    foc = "{" + ", ".join(tlc.tla_str(k) for k in focus) + "}"
    return tracecheck.validate(workdir, "Trace_Numeric", trace, {"Focus": foc})


def random_events(ns, seeds, **gen_kw):
    events, models = [], {}
    for tid, seed in enumerate(seeds, start=1):
        rng = random.Random(seed)
        model, I = lattice.lattice_objects(rng, **gen_kw)
        ev, _live = model_event(ns, tid, 0, model, I)
        ev["seed"] = seed
        events.append(ev)
        models[tid] = (model, I)
    return events, models
