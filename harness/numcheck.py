"""Shared driver of the numeric (lattice) conformance checks: C02, C03, C04, C12."""
import json
import os
import random

from . import efx, lattice, tlc, tracecheck
from .common import MachineryError


SKIPPED = {"edits": 0}      # histories cut short because a value no longer fits TLC's 32-bit integers (reported in evidence)


def classify_raise(ex):
    msg = str(ex)
    if "negative cumulative storage need" in msg:
        return "negative-storage"
    if "instances computed from its resources need is superior" in msg:
        return "storage-fixed-count" if "user/server" in msg else "fixed-count"
    if "has available capacity of" in msg:
        return "capacity"
    return f"other:{type(ex).__name__}:{msg[:120]}"


def model_event(ns, tid, seq, model, I, live=None, theorems=()):
    """build (unless given) and observe one lattice model"""
    ev = {"tid": tid, "seq": seq, "ev": "Model", "T": efx.topo_json(model), "I": I, "raised": "none", "obs": [],
          "theorems": list(theorems)}
    try:
        if live is None:
            live = efx.build(ns, model)
        elif callable(live):
            live = live()            # an edit of an already built system: may raise like a build
        ev["obs"] = lattice.observe(ns, live, model, I)
    except lattice.OffLattice:
        raise
    except Exception as ex:     # noqa: what the model raises is part of the observation
        ev["raised"] = classify_raise(ex)
    return ev, live


def validate(workdir, events, focus=()):
    trace = os.path.join(workdir, "numeric.ndjson")
    with open(trace, "w") as f:
        for ev in events:
            f.write(json.dumps(ev) + "\n")
    foc = "{" + ", ".join(tlc.tla_str(k) for k in focus) + "}"
    return tracecheck.validate(workdir, "Trace_Numeric", trace, {"Focus": foc})


def random_events(ns, seeds, theorems=(), **gen_kw):
    events, models = [], {}
    for tid, seed in enumerate(seeds, start=1):
        rng = random.Random(seed)
        model, I = lattice.lattice_objects(rng, **gen_kw)
        ev, _live = model_event(ns, tid, 0, model, I, theorems=theorems)
        ev["seed"] = seed
        events.append(ev)
        models[tid] = (model, I)
    return events, models


# ---------------------------------------------------------------------------
# C02: the system total and its views, in mg

def _mg_series(ns, v, what):
    return lattice.series(ns, v, "mg", 1, what) if not isinstance(v, ns.EmptyExplainableObject) else {"h": [], "v": []}


def _round_series(ns, v):
    """hourly value in mg rounded to the nearest integer (the total is rounded by the code itself)"""
    if isinstance(v, ns.EmptyExplainableObject):
        return {"h": [], "v": []}, True, False
    df = v.value
    f = efx._base_factor(ns, df.dtypes.iloc[0].units) / efx._base_factor(ns, ns.u("mg").units)
    hours = [int(t) // efx.EPOCH_NS_PER_H for t in df.index.asi8]
    raw = [float(x) * f for x in df["value"].values._data]
    import math
    finite = all(math.isfinite(x) for x in raw)
    negative = any(x < -1e-9 for x in raw if math.isfinite(x))
    vals = [int(round(x)) if math.isfinite(x) else 0 for x in raw]
    if any(abs(x) >= 2 ** 30 for x in vals):
        raise lattice.OffLattice("footprint above 2^30 mg in one hour")
    return {"h": hours, "v": vals}, finite, negative


def _mg_scalar(ns, q):
    f = efx._base_factor(ns, q.value.units) / efx._base_factor(ns, ns.u("mg").units)
    x = float(q.value.magnitude) * f
    if abs(x) >= 2 ** 30:
        raise lattice.OffLattice("sum over period above 2^30 mg")
    return int(round(x))


def totals_event(ns, tid, seq, model, I, live):
    system = live[efx.system_name(model)]
    by_id = {o.id: n for n, o in live.items()}
    ev = {"tid": tid, "seq": seq, "ev": "Totals", "T": efx.topo_json(model), "I": I, "comps": [],
          "nonfinite": [], "negative": []}
    ev["total"], fin, neg = _round_series(ns, system.total_footprint)
    if not fin:
        ev["nonfinite"].append("sys.total_footprint")
    views = {"energy_members": {}, "fab_members": {}, "energy_sum": {}, "energy_objects_sum": {}, "fab_sum": {},
             "fab_objects_sum": {}}
    for part, per_obj, sums_obj, sums_cat in (
            ("energy", system.energy_footprints, system.energy_footprint_sum_over_period,
             system.total_energy_footprint_sum_over_period),
            ("fab", system.fabrication_footprints, system.fabrication_footprint_sum_over_period,
             system.total_fabrication_footprint_sum_over_period)):
        for cat, d in per_obj.items():
            members = []
            for oid, val in d.items():
                if oid not in by_id:
                    continue            # the placeholder key "networks" of the fabrication view
                name = by_id[oid]
                members.append(name)
                ser, fin, neg = _round_series(ns, val)
                if not fin:
                    ev["nonfinite"].append(f"{name}.{part}")
                if neg:
                    ev["negative"].append(f"{name}.{part}")
                ev["comps"].append(dict(o=name, part=part, **ser))
            views[f"{part}_members"][cat] = sorted(members)
            views[f"{part}_objects_sum"][cat] = sum(_mg_scalar(ns, q) for k, q in sums_obj[cat].items() if k in by_id)
            views[f"{part}_sum"][cat] = _mg_scalar(ns, sums_cat[cat])
    ev["views"] = views
    ev["finite"] = not ev["nonfinite"]
    return ev


# ---------------------------------------------------------------------------
# C12: a model and the same model with one driver multiplied by k

def scaled_model(model, I, driver, k, rng):
    """returns (model2, I2, changed_inputs [[obj, attr], ...]) or None if the driver does not apply"""
    import copy
    m2, I2 = copy.deepcopy(model), copy.deepcopy(I)
    ch = []
    reach = efx.reachable(model)

    def mul(obj, attr):
        m2[obj]["inp"][attr][0] *= k
        ch.append([obj, attr])

    def div(obj, attr):
        m2[obj]["inp"][attr][0] /= k
        ch.append([obj, attr])
    servers = sorted(n for n in efx.names_of(model, "Server") if n in reach)
    storages = sorted(n for n in efx.names_of(model, "Storage") if n in reach)
    devices = sorted(n for n in efx.names_of(model, "Device") if n in reach)
    if driver in ("pue", "server-ci", "server-fabrate", "server-lifespan-inv"):
        if not servers:
            return None
        v = rng.choice(servers)
        if driver == "pue":
            mul(v, "power_usage_effectiveness"); I2["sv"][v]["pue"] *= k
        elif driver == "server-ci":
            mul(v, "average_carbon_intensity"); I2["sv"][v]["ci"] *= k
        elif driver == "server-fabrate":
            mul(v, "carbon_footprint_fabrication"); I2["sv"][v]["fabrate"] *= k
        else:
            div(v, "lifespan"); I2["sv"][v]["fabrate"] *= k
    elif driver in ("storage-fabrate", "storage-lifespan-inv"):
        if not storages:
            return None
        t = rng.choice(storages)
        if driver == "storage-fabrate":
            mul(t, "carbon_footprint_fabrication_per_storage_capacity")
        else:
            div(t, "lifespan")
        I2["st"][t]["fabrate"] *= k
    elif driver == "bei":
        n = rng.choice(sorted(x for x in efx.names_of(model, "Network") if x in reach))
        mul(n, "bandwidth_energy_intensity"); I2["net"][n] *= k
    elif driver == "dt":
        jobs = sorted(x for x in efx.names_of(model, "Job") if x in reach)
        if not jobs:
            return None
        for j in jobs:
            mul(j, "data_transferred"); I2["job"][j]["dt"] *= k
    elif driver == "country-ci":
        for c in sorted(x for x in efx.names_of(model, "Country") if x in reach):
            mul(c, "average_carbon_intensity"); I2["ci"][c] *= k
    elif driver in ("device-power", "device-fabrate", "device-lifespan-inv", "device-usage-fraction-inv"):
        for d in devices:
            if driver == "device-power":
                mul(d, "power"); I2["dev"][d]["power"] *= k
            else:
                if driver == "device-fabrate":
                    mul(d, "carbon_footprint_fabrication")
                elif driver == "device-lifespan-inv":
                    div(d, "lifespan")
                else:
                    div(d, "fraction_of_usage_time")
                I2["dev"][d]["fabrate"] *= k
    elif driver == "traffic":
        for u in efx.names_of(model, "UsagePattern"):
            m2[u]["opt"]["starts"] = [x * k for x in m2[u]["opt"]["starts"]]
            I2["up"][u]["vals"] = [x * k for x in I2["up"][u]["vals"]]
            ch.append([u, "hourly_usage_journey_starts"])
    else:
        raise ValueError(driver)
    return m2, I2, ch


DRIVERS = ["pue", "server-ci", "bei", "dt", "country-ci", "device-power", "device-fabrate", "device-lifespan-inv",
           "device-usage-fraction-inv", "server-fabrate", "server-lifespan-inv", "storage-fabrate",
           "storage-lifespan-inv", "traffic"]


def pair_event(ns, tid, seq, model, I, driver, k, rng):
    sc = scaled_model(model, I, driver, k, rng)
    if sc is None:
        return None
    m2, I2, ch = sc
    ev1, _ = model_event(ns, tid, seq, model, I)
    ev2, _ = model_event(ns, tid, seq, m2, I2)
    if ev1["raised"] != "none" or ev2["raised"] != "none":
        return None
    return {"tid": tid, "seq": seq, "ev": "Pair", "T": ev1["T"], "I": I, "I2": I2, "driver": driver, "k": k,
            "changed_inputs": ch, "obs": ev1["obs"], "obs2": ev2["obs"]}, ev2


def pair_event_live(ns, tid, seq, model, I, driver, k, rng):
    """the same pair observed on ONE live system: built with other server types, switched to the model's types by edits, observed,
    then the driver's inputs are multiplied by edits and it is observed again"""
    import copy
    sc = scaled_model(model, I, driver, k, rng)
    if sc is None:
        return None
    m2, I2, ch = sc
    m0 = copy.deepcopy(model)
    servers = [v for v in efx.names_of(model, "Server") if model[v]["opt"].get("fixed_nb") is None]
    if not servers:
        return None
    for v in servers:
        m0[v]["opt"]["server_type"] = rng.choice([x for x in ("autoscaling", "serverless", "on-premise")
                                                  if x != model[v]["opt"]["server_type"]])
    try:
        live = efx.build(ns, m0)
    except Exception:   # noqa
        return None

    def to_model():
        cur = m0
        for v in servers:
            e = ("opt", v, "server_type", model[v]["opt"]["server_type"])
            efx.apply_edit_live(ns, cur, live, e)
            cur = efx.apply_edit_abstract(cur, e)
        return live

    def to_scaled():
        cur = model
        # a what-if simulation made and switched on and off first: it leaves the baseline as it was, so the driver's effect
        # afterwards must be the same
        if rng.random() < 0.5 and simulate_and_toggle(ns, live, cur, rng):
            SKIPPED["simulated_before_scaling"] = SKIPPED.get("simulated_before_scaling", 0) + 1
        # then, edits the capacity check must refuse (a base RAM consumption above what an instance offers): a refused edit
        # changes nothing, so the driver's effect afterwards must be the same
        for v in sorted(I["sv"]):
            if rng.random() < 0.5:
                over = ("input", v, "base_ram_consumption", [(I["sv"][v]["ram"] * I["sv"][v]["util"] // 100 + 10) * 100, "MB"])
                try:
                    efx.apply_edit_live(ns, cur, live, over)
                except Exception:   # noqa: refused, as it must be
                    SKIPPED["refused_before_scaling"] = SKIPPED.get("refused_before_scaling", 0) + 1
                else:               # accepted after all: put the model's value back
                    efx.apply_edit_live(ns, efx.apply_edit_abstract(cur, over), live,
                                        ("input", v, "base_ram_consumption", list(cur[v]["inp"]["base_ram_consumption"])))
        for obj, attr in ch:
            e = ("opt", obj, "starts", [m2[obj]["opt"]["starts"], m2[obj]["opt"]["start"]]) \
                if attr == "hourly_usage_journey_starts" else ("input", obj, attr, m2[obj]["inp"][attr])
            efx.apply_edit_live(ns, cur, live, e)
            cur = efx.apply_edit_abstract(cur, e)
        return live
    ev1, _ = model_event(ns, tid, seq, model, I, live=to_model)
    if ev1["raised"] != "none":
        return None
    ev2, _ = model_event(ns, tid, seq, m2, I2, live=to_scaled)
    if ev2["raised"] != "none":
        return None
    return {"tid": tid, "seq": seq, "ev": "Pair", "T": ev1["T"], "I": I, "I2": I2, "driver": driver, "k": k,
            "changed_inputs": ch, "obs": ev1["obs"], "obs2": ev2["obs"]}, ev2


INVARIANTS = {
    "usage": ["OccurrencesConserved", "OccurrencesPlaced", "OccurrenceHoursConserved", "DataConserved",
              "JourneysInParallelConserved", "DeviceEnergyConserved", "AcrossPatternsAddsUp"],
    "sizing": ["ServerCoversNeed", "FixedCountNeverUnderProvisions", "DeletionFreeNeverNegative", "StorageCoversNeed",
               "CumulativeIsRunningSum", "NeedsCombineByTimestamp"],
    "totals": ["NonNegativeWithoutDeletion", "EnergyFootprintIsEnergyTimesIntensity"],
    "scale": ["Proportional"],
}


def run_theorems(out, wd, family, invariants, large, timeout=3000):
    fam = "sizing" if family == "totals" else family
    cfg = "SPECIFICATION Spec\nCONSTANTS\n  Family = \"%s\"\n  Large = %s\n" % (fam, "TRUE" if large else "FALSE")
    cfg += "".join(f"INVARIANT {i}\n" for i in invariants)
    res = tlc.run_tlc(wd, "MC_Numeric", cfg, workers=16, timeout=timeout)
    tlc.require_clean(res, f"MC_Numeric[{family}]")
    out.add_tlc(res, f"MC_Numeric family={family} large={large}: theorems {', '.join(invariants)}", exhaustive=res.completed)
    if res.error:
        out.violation(f"model:{res.error}", {"family": family, "tlc_output_tail": res.out[-5000:]})
    return res


def judge(out, events, fails, prefix=""):
    by_key = {(e["tid"], e["seq"], e["ev"]): e for e in events}
    for tid, seq, clause, data in fails:
        cands = [e for e in events if e["tid"] == tid and e["seq"] == seq]
        e = cands[0] if cands else {}
        sig = prefix + clause
        out.violation(sig, {"clause": clause, "spec_says": data[:3000], "seed": e.get("seed"), "event": e.get("ev"),
                            "driver": e.get("driver"), "T": e.get("T"), "I": e.get("I")})


def simulate_and_toggle(ns, live, model, rng):
    """a what-if simulation of one input at the first modelled hour, switched on and off again (must leave no trace)"""
    from . import simcheck
    lo, _hi, _last = simcheck.period(ns, live, model)
    if lo is None:
        return False
    cands = [(n, a) for n in sorted(efx.reachable(model)) for a in model[n]["inp"]]
    n, a = rng.choice(cands)
    old = getattr(live[n], a)
    try:
        sim = ns.ModelingUpdate([[old, ns.SourceValue(old.value * 2)]], lo.to_pydatetime())
        sim.set_updated_values()
        sim.reset_values()
        return True
    except Exception:   # noqa: refused simulations are C05 / C06's subject
        return False


def _from(model, name):
    """names reachable from one object of an abstract model through forward links"""
    seen, todo = set(), [name]
    while todo:
        n = todo.pop()
        if n in seen or n not in model:
            continue
        seen.add(n)
        todo += list(model[n]["lnk"].values())
        for l in model[n]["lst"].values():
            todo += l
    return seen


def edited_events(ns, seeds, n_edits, theorems=(), kinds=None, simulate=False, group_prob=0.0, with_totals=False, **gen_kw):
    """lattice systems, built then edited in place: one Model event after each edit (observed on the live system)"""
    events = []
    for tid, seed in enumerate(seeds, start=1):
        rng = random.Random(seed)
        model, I = lattice.lattice_objects(rng, **gen_kw)
        ev, live = model_event(ns, tid, 0, model, I, theorems=theorems)
        ev["seed"] = seed
        events.append(ev)
        if ev["raised"] != "none":
            continue
        k, last, follow_up, refused_obj = 0, n_edits, False, None
        while k < last:
            k += 1
            if simulate and simulate_and_toggle(ns, live, model, rng):
                SKIPPED["simulations"] = SKIPPED.get("simulations", 0) + 1
            if follow_up:       # what a refused edit left behind shows when the load is recomputed: an accepted change of the traffic
                for _try in range(12):
                    edit, I2 = lattice.lattice_edit(rng, model, I, ("starts",))
                    if refused_obj is None or refused_obj in _from(model, edit[1]):
                        break
                follow_up = False
            else:
                edit, I2 = (lattice.lattice_edit(rng, model, I, kinds) if kinds else lattice.lattice_edit(rng, model, I))
                groupable = lambda x: x[0] == "input" or (x[0] == "opt" and x[2] == "starts")
                if group_prob and rng.random() < group_prob and groupable(edit):
                    # two changes in ONE update (their recomputation chains are merged and re-sorted in the canonical order)
                    try:
                        m1 = efx.apply_edit_abstract(model, edit)
                        for _try in range(8):
                            e2, I3 = (lattice.lattice_edit(rng, m1, I2, kinds) if kinds else lattice.lattice_edit(rng, m1, I2))
                            if groupable(e2) and (e2[1], e2[2]) != (edit[1], edit[2]):
                                edit, I2 = ("group", [edit, e2]), I3
                                SKIPPED["grouped"] = SKIPPED.get("grouped", 0) + 1
                                break
                    except lattice.OffLattice:
                        pass

            def do(edit=edit, model=model):
                efx.apply_edit_live(ns, model, live, edit)
                return live
            model2 = efx.apply_edit_abstract(model, edit)
            try:
                ev, _ = model_event(ns, tid, k, model2, I2, live=do, theorems=theorems)
            except lattice.OffLattice:
                SKIPPED["edits"] += 1    # a value left the integer range TLC can represent: the history stops here
                break
            ev["seed"], ev["edit"] = seed, edit
            events.append(ev)
            if ev["raised"] != "none":
                # a refused edit is rolled back: the live system must still be the model as it was, and the history goes on
                try:
                    back, _ = model_event(ns, tid, 1000 + k, model, I, live=lambda: live, theorems=theorems)
                except lattice.OffLattice:
                    break
                back["seed"], back["edit"] = seed, ["after-refused"] + list(edit)
                events.append(back)
                SKIPPED["refused"] = SKIPPED.get("refused", 0) + 1
                if last < n_edits + 2:
                    last += 1
                    follow_up = True
                    first = edit[1][0] if edit[0] == "group" else edit
                    refused_obj = first[1] if len(first) > 1 and isinstance(first[1], str) and \
                        model.get(first[1], {}).get("cls") == "Server" else None
                continue
            model, I = model2, I2
            if with_totals:
                # the hourly total, its components and the views, read on the LIVE system after the accepted edit
                try:
                    t = totals_event(ns, tid, 2000 + k, model, I, live)
                    t["seed"], t["edit"] = seed, edit
                    events.append(t)
                except lattice.OffLattice:
                    pass
    return events
