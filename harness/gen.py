"""Seeded generators of abstract models (all sharing patterns) and of edits."""
import copy
from .efx import new_obj, names_of, system_name, SCHEMA, DEFAULTS, reachable

FACTORS = [0.5, 2, 3, 1.5]
DURATIONS = [[1, "s"], [30, "min"], [1, "hour"], [90, "min"], [150, "min"], [20, "s"]]
STEP_TIMES = [[0, "min"], [1, "min"], [30, "min"], [60, "min"], [90, "min"], [150, "min"], [59, "min"], [61, "min"]]
ZONES = ["Europe/Paris", "UTC", "America/New_York", "Asia/Kolkata", "Australia/Lord_Howe", "Asia/Kathmandu"]


def random_starts(rng, lo=3, hi=8):
    n = rng.randint(lo, hi)
    vals = [rng.choice([0, 1, 2, 3, 5, 8, 13]) for _ in range(n)]
    if not any(vals):
        vals[rng.randrange(n)] = 4
    day = rng.choice([1, 1, 1, 2])
    hour = rng.choice([0, 0, 5, 22])
    return vals, f"2025-01-0{day}T{hour:02d}:00:00"


def scaled(rng, mv):
    return [mv[0] * rng.choice(FACTORS), mv[1]]


def random_model(rng, max_per_class=3, share_bias=0.5, allow_negative_store=False):
    """A well-formed abstract model: every usage pattern is in the system, every server has its own
    storage, everything else is linked at random (so jobs, steps, journeys, networks, countries and
    devices are shared between usage patterns with probability depending on share_bias)."""
    m = {}
    n_srv = rng.randint(1, min(2, max_per_class))
    for i in range(1, n_srv + 1):
        m[f"sto{i}"] = new_obj("Storage")
        m[f"sv{i}"] = new_obj("Server", storage=f"sto{i}", server_type=rng.choice(
            ["autoscaling", "autoscaling", "on-premise", "serverless"]))
    # one spare server+storage, never used at creation: a target for re-pointing links
    if rng.random() < 0.4:
        k = n_srv + 1
        m[f"sto{k}"] = new_obj("Storage")
        m[f"sv{k}"] = new_obj("Server", storage=f"sto{k}")
        n_srv = k
    n_job = rng.randint(1, max_per_class)
    for i in range(1, n_job + 1):
        kw = {"server": f"sv{rng.randint(1, n_srv)}", "request_duration": rng.choice(DURATIONS)}
        if rng.random() < 0.5:
            kw["data_transferred"] = scaled(rng, DEFAULTS["Job"]["data_transferred"])
        m[f"j{i}"] = new_obj("Job", **kw)
    n_step = rng.randint(1, max_per_class)
    for i in range(1, n_step + 1):
        k = rng.choice([0, 1, 1, 1, 2, 2, 3])
        jobs = [f"j{rng.randint(1, n_job)}" for _ in range(k)]
        m[f"s{i}"] = new_obj("UsageJourneyStep", jobs=jobs, user_time_spent=rng.choice(STEP_TIMES))
    n_uj = rng.randint(1, max_per_class)
    for i in range(1, n_uj + 1):
        k = rng.choice([0, 1, 1, 2, 2, 3])
        steps = [f"s{rng.randint(1, n_step)}" for _ in range(k)]
        m[f"uj{i}"] = new_obj("UsageJourney", uj_steps=steps)
    n_dev = rng.randint(1, 2)
    for i in range(1, n_dev + 1):
        m[f"d{i}"] = new_obj("Device", power=scaled(rng, DEFAULTS["Device"]["power"]))
    n_net = rng.randint(1, 2)
    for i in range(1, n_net + 1):
        m[f"n{i}"] = new_obj("Network", bandwidth_energy_intensity=scaled(
            rng, DEFAULTS["Network"]["bandwidth_energy_intensity"]))
    n_c = rng.randint(1, 2)
    for i in range(1, n_c + 1):
        m[f"c{i}"] = new_obj("Country", tz=rng.choice(ZONES),
                             average_carbon_intensity=scaled(rng, DEFAULTS["Country"]["average_carbon_intensity"]))
    n_up = rng.randint(1, max_per_class)
    ups = []
    for i in range(1, n_up + 1):
        share = rng.random() < share_bias
        uj = f"uj{1 if share else rng.randint(1, n_uj)}"
        vals, start = random_starts(rng)
        devs = [f"d{rng.randint(1, n_dev)}" for _ in range(rng.choice([1, 1, 2]))]
        m[f"up{i}"] = new_obj("UsagePattern", usage_journey=uj, network=f"n{rng.randint(1, n_net)}",
                              country=f"c{rng.randint(1, n_c)}", devices=devs, starts=vals, start=start)
        ups.append(f"up{i}")
    m["sys"] = new_obj("System", usage_patterns=ups)
    _zero_some_input(m)
    return m


# inputs for which 0 is a valid value (nothing is divided by them)
ZERO_OK = [("Job", "data_transferred"), ("Job", "data_stored"), ("Job", "ram_needed"), ("Job", "compute_needed"),
           ("Device", "carbon_footprint_fabrication"), ("Device", "power"), ("Storage", "idle_power"), ("Server", "idle_power"),
           ("Server", "base_ram_consumption"), ("Server", "base_compute_consumption"), ("Network", "bandwidth_energy_intensity"),
           ("Country", "average_carbon_intensity")]


def _zero_some_input(m):
    """in one model out of four, one or two inputs are exactly 0 (a job that transfers nothing, a device already amortised, ...);
    decided from the model's content, so that the caller's random stream is left as it was"""
    import json
    import zlib
    zr = __import__("random").Random(zlib.crc32(json.dumps(m, sort_keys=True).encode()))
    if zr.random() < 0.25:
        cands = [(n, a) for n in sorted(m) if not n.startswith("__") for a in sorted(m[n]["inp"]) if (m[n]["cls"], a) in ZERO_OK]
        for n, a in zr.sample(cands, min(len(cands), zr.choice([1, 2]))):
            m[n]["inp"][a] = [0, m[n]["inp"][a][1]]


def fresh_up_name(model):
    i = 1
    while f"up{i}" in model:
        i += 1
    return f"up{i}"


def random_edit(rng, model, kinds=None):
    """One random, well-formed edit of the abstract model (never an invalid one)."""
    kinds = kinds or ["input", "input", "input", "starts", "link", "list", "listop", "listop", "group",
                      "add_up", "del_up", "server_type", "tz", "refused"]
    for _ in range(50):
        kind = rng.choice(kinds)
        e = _try_edit(rng, model, kind)
        if e is not None:
            return e
    return _try_edit(rng, model, "input")


def _random_input_edit(rng, model):
    objs = [n for n in model if not n.startswith("__") and model[n]["inp"]]
    o = rng.choice(sorted(objs))
    a = rng.choice(sorted(model[o]["inp"]))
    cls = model[o]["cls"]
    if a == "request_duration":
        mv = rng.choice(DURATIONS)
    elif a == "user_time_spent":
        mv = rng.choice(STEP_TIMES)
    else:
        base = DEFAULTS[cls][a]
        mv = [base[0] * rng.choice(FACTORS + [1]), base[1]]
        if a in ("base_storage_need",):
            mv = [rng.choice([0, 1, 5]), "TB"]
        elif (cls, a) in ZERO_OK and rng.random() < 0.12:
            mv = [0, base[1]]
    if mv == model[o]["inp"][a]:
        return None
    return ("input", o, a, mv)


def _try_edit(rng, model, kind):
    if kind == "input":
        return _random_input_edit(rng, model)
    if kind == "refused":
        # an input value the server's capacity check refuses while the update is being recomputed
        reach = reachable(model)
        servers = [s for s in names_of(model, "Server") if s in reach]
        if not servers:
            return None
        s = rng.choice(sorted(servers))
        inp = model[s]["inp"]
        res = rng.choice(["ram", "compute"])
        base = "base_%s_consumption" % res
        if rng.random() < 0.5 and inp[base][0] > 0:
            e = ("input", s, res, [inp[base][0] / 2, inp[base][1]])
        else:
            e = ("input", s, base, [inp[res][0] * 2, inp[res][1]])
        return ("refused", e)
    if kind == "starts":
        up = rng.choice(names_of(model, "UsagePattern"))
        n = len(model[up]["opt"]["starts"])      # a series of another length is refused by the pinned code
        vals, start = random_starts(rng, n, n)
        if rng.random() < 0.6:
            start = model[up]["opt"]["start"]
        if vals == model[up]["opt"]["starts"] and start == model[up]["opt"]["start"]:
            return None
        return ("opt", up, "starts", [vals, start])
    if kind == "tz":
        c = rng.choice(names_of(model, "Country"))
        z = rng.choice(ZONES)
        return None if z == model[c]["opt"]["tz"] else ("opt", c, "tz", z)
    if kind == "server_type":
        s = rng.choice(names_of(model, "Server"))
        t = rng.choice(["autoscaling", "on-premise", "serverless"])
        return None if t == model[s]["opt"]["server_type"] else ("opt", s, "server_type", t)
    if kind == "link":
        choice = rng.choice(["job.server", "up.usage_journey", "up.network", "up.country", "server.storage"])
        if choice == "job.server":
            o = rng.choice(names_of(model, "Job"))
            t = rng.choice(names_of(model, "Server"))
            a = "server"
        elif choice == "server.storage":
            used = {model[s]["lnk"]["storage"] for s in names_of(model, "Server")}
            free = [s for s in names_of(model, "Storage") if s not in used]
            if not free:
                return None
            o, a, t = rng.choice(names_of(model, "Server")), "storage", rng.choice(free)
        else:
            o = rng.choice(names_of(model, "UsagePattern"))
            a = choice.split(".")[1]
            cls = {"usage_journey": "UsageJourney", "network": "Network", "country": "Country"}[a]
            t = rng.choice(names_of(model, cls))
        return None if model[o]["lnk"][a] == t else ("link", o, a, t)
    if kind in ("list", "listop"):
        choice = rng.choice(["step.jobs", "uj.uj_steps", "up.devices", "sys.usage_patterns"])
        if choice == "step.jobs":
            o, a, pool = rng.choice(names_of(model, "UsageJourneyStep")), "jobs", names_of(model, "Job")
        elif choice == "uj.uj_steps":
            o, a, pool = rng.choice(names_of(model, "UsageJourney")), "uj_steps", names_of(model, "UsageJourneyStep")
        elif choice == "up.devices":
            o, a, pool = rng.choice(names_of(model, "UsagePattern")), "devices", names_of(model, "Device")
        else:
            o, a = system_name(model), "usage_patterns"
            cur = model[o]["lst"][a]
            if len(cur) < 2:
                return None
            new = list(cur)
            rng.shuffle(new)
            return None if new == cur else ("list", o, a, new)   # only permutations of the system's patterns
        cur = model[o]["lst"][a]
        if kind == "list":
            k = rng.choice([0, 1, 2, 3]) if a != "devices" else rng.choice([1, 2])
            new = [rng.choice(pool) for _ in range(k)]
            return None if new == cur else ("list", o, a, new)
        ops = ["append", "insert", "extend", "iadd"]
        if cur:
            ops += ["pop", "delitem", "setitem", "remove"]
            if a != "devices":
                ops += ["clear", "imul"]
        op = rng.choice(ops)
        if a == "devices" and len(cur) <= 1 and op in ("pop", "delitem", "remove"):
            return None
        x = rng.choice(pool)
        if op == "append":
            args = [x]
        elif op == "insert":
            args = [rng.randint(0, len(cur)), x]
        elif op in ("extend", "iadd"):
            args = [[rng.choice(pool) for _ in range(rng.choice([1, 2]))]]
        elif op == "imul":
            if len(cur) > 2:
                return None
            args = [2]
        elif op == "pop":
            args = rng.choice([[], [0], [len(cur) - 1]])
        elif op == "delitem":
            args = [rng.randrange(len(cur))]
        elif op == "setitem":
            i = rng.randrange(len(cur))
            if cur[i] == x:
                return None
            args = [i, x]
        elif op == "remove":
            args = [rng.choice(cur)]
        else:
            args = []
        return ("listop", o, a, op, args)
    if kind == "group":
        n = rng.choice([2, 2, 3])
        es, touched = [], set()
        for _ in range(n * 4):
            e = _try_edit(rng, model, rng.choice(["input", "input", "starts", "link", "list"]))
            if e is None or (e[1], e[2]) in touched:
                continue
            touched.add((e[1], e[2]))
            es.append(e)
            if len(es) == n:
                break
        return ("group", es) if len(es) >= 2 else None
    if kind == "add_up":
        if len(names_of(model, "UsagePattern")) >= 4:
            return None
        vals, start = random_starts(rng)
        desc = new_obj("UsagePattern", usage_journey=rng.choice(names_of(model, "UsageJourney")),
                       network=rng.choice(names_of(model, "Network")), country=rng.choice(names_of(model, "Country")),
                       devices=[rng.choice(names_of(model, "Device"))], starts=vals, start=start)
        return ("add_up", fresh_up_name(model), desc)
    if kind == "del_up":
        ups = model[system_name(model)]["lst"]["usage_patterns"]
        if len(ups) < 2:
            return None
        return ("del_up", rng.choice(ups))
    raise ValueError(kind)


def shape_tags(model):
    """coarse description of the sharing present in a model (for coverage reporting)"""
    tags = set()
    ups = names_of(model, "UsagePattern")
    ujs = [model[u]["lnk"]["usage_journey"] for u in ups]
    if len(set(ujs)) < len(ujs):
        tags.add("journey-shared-by-patterns")
    nets = [model[u]["lnk"]["network"] for u in ups]
    if len(set(nets)) < len(nets):
        tags.add("network-shared")
    if len(ups) > 1 and len(set(nets)) > 1:
        tags.add("several-networks")
    job_ujs = {}
    for uj in set(ujs):
        for s in model[uj]["lst"]["uj_steps"]:
            for j in model[s]["lst"]["jobs"]:
                job_ujs.setdefault(j, set()).add(uj)
    if any(len(v) > 1 for v in job_ujs.values()):
        tags.add("job-in-several-journeys")
    for uj in set(ujs):
        steps = model[uj]["lst"]["uj_steps"]
        if len(set(steps)) < len(steps):
            tags.add("step-twice-in-journey")
        if not steps:
            tags.add("empty-journey")
    for s in names_of(model, "UsageJourneyStep"):
        jobs = model[s]["lst"]["jobs"]
        if len(set(jobs)) < len(jobs):
            tags.add("job-twice-in-step")
    srv = [model[j]["lnk"]["server"] for j in names_of(model, "Job")]
    if len(set(srv)) < len(srv):
        tags.add("server-shared-by-jobs")
    return tags
