"""Shared plumbing of the verification harness: paths, scratch directories,
evidence files, violation / known-finding reporting.

Exit-code contract (see DESIGN.md section 7):
  0  property held on everything explored (KNOWN-FINDING lines may be printed)
  1  at least one violation that known_findings.json does not list
  2  machinery failure (TLC crashed, spec does not parse, vacuous run ...)
"""
import hashlib
import json
import os
import shutil
import sys
import time

ROOT = os.path.dirname(os.path.dirname(os.path.abspath(__file__)))
REPO = os.environ.get("EFOOTPRINT_REPO", "/repo")
SPEC_DIR = os.path.join(ROOT, "spec")
WORK_ROOT = os.path.join(ROOT, ".work")
EVIDENCE_DIR = os.environ.get("VERIF_EVIDENCE_DIR", os.path.join(ROOT, "evidence"))   # override: seed trials only
KNOWN_FINDINGS = os.path.join(ROOT, "known_findings.json")
GUARD = "EFOOTPRINT_VERIF"


class MachineryError(Exception):
    """Something in the checking machinery (not in e-footprint) went wrong."""


def seed_from_env(default=0):
    try:
        return int(os.environ.get("VERIF_SEED", default))
    except ValueError:
        return default


def work_dir(tag):
    """Fresh scratch directory /verif/.work/<tag>-<pid>; removed by cleanup()."""
    path = os.path.join(WORK_ROOT, f"{tag}-{os.getpid()}")
    if os.path.isdir(path):
        shutil.rmtree(path)
    os.makedirs(path)
    return path


def cleanup(path):
    shutil.rmtree(path, ignore_errors=True)


def load_known_findings():
    with open(KNOWN_FINDINGS) as f:
        data = json.load(f)
    return data.get("known", []), data.get("fixed", [])


class Outcome:
    """Collects what a check run found and turns it into stdout lines, an
    evidence file and an exit status."""

    def __init__(self, prop, tier, level="model_checking"):
        self.prop = prop
        self.tier = tier
        self.level = level
        self.seed = seed_from_env()
        self.t0 = time.time()
        self.states = 0
        self.transitions = 0
        self.traces = 0
        self.evaluations = 0
        self.samples = []
        self.extra = {}
        self.assumptions = []
        self.violations = []      # (signature, detail dict)
        self.known_hits = {}      # signature -> count
        self.tlc_runs = []
        self.exhaustive = None
        self.nontrivial = set()
        self.only_signature = None     # replay mode: only this signature counts, evidence goes to a scratch directory

    # -- accumulation -----------------------------------------------------
    def add_tlc(self, res, label, exhaustive=None):
        self.states += res.distinct
        self.transitions += res.generated
        self.tlc_runs.append({"run": label, "distinct_states": res.distinct,
                              "states_generated": res.generated, "wall_s": round(res.wall, 2),
                              "mode": res.mode, "completed": res.completed})
        if exhaustive is not None:
            self.exhaustive = exhaustive if self.exhaustive is None else (self.exhaustive and exhaustive)

    def sample(self, obj, limit=6):
        if len(self.samples) < limit:
            self.samples.append(obj)

    def violation(self, signature, detail):
        """signature: short stable string naming the failing shape (matched
        against known_findings.json); detail: JSON-able replay information."""
        known, _fixed = load_known_findings()
        for k in known:
            if k["property"] == self.prop and k["signature"] == signature:
                self.known_hits[signature] = self.known_hits.get(signature, 0) + 1
                return False
        self.violations.append((signature, detail))
        return True

    # -- reporting --------------------------------------------------------
    def finish(self):
        evidence_dir = EVIDENCE_DIR if self.only_signature is None else os.path.join(WORK_ROOT, "replay_evidence")
        os.makedirs(evidence_dir, exist_ok=True)
        if self.only_signature is not None:
            other = sorted({s for s, _d in self.violations if s != self.only_signature})
            if other:
                print(f"(replay: {len(other)} other signature(s) seen in the same run are not part of this replay: {other[:5]})")
            self.violations = [(s, d) for s, d in self.violations if s == self.only_signature]
        known, _fixed = load_known_findings()
        if self.only_signature is None:
            # every finding listed for this property is recalled, met in this run or not (a listed finding suppresses exactly
            # its own signature; anything else is a VIOLATION)
            for k in known:
                if k["property"] == self.prop:
                    n = self.known_hits.get(k["signature"], 0)
                    print(f"KNOWN-FINDING: property={self.prop} {k['signature']} ({n} occurrence(s) in this run) "
                          f"{k.get('description', '')}")
        vio_dir = os.path.join(WORK_ROOT, "violations")
        seen = set()
        for sig, detail in self.violations:
            if sig in seen:
                continue
            seen.add(sig)
            os.makedirs(vio_dir, exist_ok=True)
            h = hashlib.sha1((self.prop + sig).encode()).hexdigest()[:10]
            path = os.path.join(vio_dir, f"{self.prop}-{h}.json")
            with open(path, "w") as f:
                json.dump({"property": self.prop, "signature": sig, "tier": self.tier, "seed": self.seed, "detail": detail},
                          f, indent=1, default=str)
            print(f"VIOLATION property={self.prop} replay={path}")
            print(f"  signature: {sig}")
        coverage = {
            "states": self.states, "transitions": self.transitions,
            "traces_validated_against_impl": self.traces,
            "evaluations": max(self.evaluations, self.traces, 1),
            "distinct_nontrivial": len(self.nontrivial),
            "rule": self.extra.pop("rule", "see DESIGN.md section 5 for this property"),
            "samples": self.samples if self.samples else ["(no sample recorded)"],
            "tlc_runs": self.tlc_runs,
        }
        if self.exhaustive is not None:
            coverage["exhaustive"] = bool(self.exhaustive)
        coverage.update(self.extra)
        ev = {
            "property_id": self.prop, "tier": self.tier, "seed": self.seed, "level": self.level,
            "coverage": coverage, "assumptions": self.assumptions,
            "wall_s": round(time.time() - self.t0, 2),
            "violations": len(seen),
            "known_findings_hit": sorted(self.known_hits),
        }
        with open(os.path.join(evidence_dir, f"{self.prop}.json"), "w") as f:
            json.dump(ev, f, indent=1, default=str)
        n = len(seen)
        print(f"[{self.prop}] tier={self.tier} states={self.states} transitions={self.transitions} "
              f"impl_traces={self.traces} violations={n} known={len(self.known_hits)} "
              f"wall={ev['wall_s']}s")
        return 1 if n else 0


def die_machinery(msg):
    print(f"MACHINERY-FAILURE: {msg}", file=sys.stderr)
    sys.exit(2)
