"""Driver of recorded what-if simulations (C05, C06): seeded systems, change lists (inputs, links, lists, mixtures,
invalid / failing ones), dates (first hour, interior, last, outside, naive), toggle sequences; after each operation the
identities of all value objects, the dependency graph, value classes and links are projected."""
import copy
import random
from datetime import datetime, timedelta, timezone

from . import efx, gen


class Projector:
    """small integers for value-object identities and for classes of numerically equal values"""

    def __init__(self, ns):
        self.ns = ns
        self.keep = []          # keeps every seen object alive so that id() is never reused
        self.ids = {}
        self.reps = {}          # slot -> list of representative projected values

    def token(self, obj):
        k = id(obj)
        if k not in self.ids:
            self.ids[k] = len(self.ids) + 1
            self.keep.append(obj)
        return self.ids[k]

    def value_class(self, slot, v):
        pv = efx.project_value(self.ns, v)
        reps = self.reps.setdefault(slot, [])
        for n, r in enumerate(reps):
            if efx.values_equal(pv, r, atol=(efx.TOTAL_ATOL if slot.endswith("total_footprint|-") else 1e-12)):
                return n + 1
        reps.append(pv)
        return len(reps)

    def state(self, live):
        ns = self.ns
        tok, val, chld, anc = {}, {}, {}, {}
        objs = []
        for n in sorted(live):
            o = live[n]
            for a, v in efx.explainable_attrs(ns, o).items():
                if a in efx.BOOKKEEPING:
                    continue
                if isinstance(v, dict):
                    tok[f"{n}|{a}|#"] = self.token(v)
                    for k, x in v.items():
                        objs.append((f"{n}|{a}|{k.name}", x))
                else:
                    objs.append((f"{n}|{a}|-", v))
        for slot, x in objs:
            t = self.token(x)
            tok[slot] = t
            val[slot] = self.value_class(slot, x)
            chld[str(t)] = sorted(self.token(c) for c in x.direct_children_with_id)
            anc[str(t)] = sorted(self.token(c) for c in x.direct_ancestors_with_id)
        topo = efx.topology(ns, live)
        links = {n: {"lnk": topo[n]["lnk"], "lst": topo[n]["lst"],
                     "used_by": sorted(c.name for c in live[n].modeling_obj_containers)} for n in sorted(topo)}
        return {"tok": tok, "val": val, "chld": chld, "anc": anc, "links": links}


def period(ns, live, model):
    """UTC first and last hour over the usage patterns' UTC starts"""
    lo, hi, last_per_up = None, None, []
    for n in efx.names_of(model, "UsagePattern"):
        v = live[n].utc_hourly_usage_journey_starts
        if isinstance(v, ns.EmptyExplainableObject):
            continue
        idx = v.value.index
        lo = idx.min() if lo is None else min(lo, idx.min())
        hi = idx.max() if hi is None else max(hi, idx.max())
        last_per_up.append(idx.max())
    return lo, hi, last_per_up


def change_list(ns, rng, model, live, flavour):
    """(list of [old, new] pairs, abstract edits, expect_ok)"""
    if flavour == "invalid":
        j = rng.choice(efx.names_of(model, "Job"))
        return [[live[j].data_transferred, ns.SourceValue(-1 * ns.u.kB)]], [], False
    if flavour == "not-allowed":
        s = rng.choice(efx.names_of(model, "Server"))
        return [[live[s].server_type, ns.SourceObject("foo")]], [], False
    if flavour in ("recompute-fails", "link+recompute-fails"):
        servers = [s for s in efx.names_of(model, "Server") if s in efx.reachable(model)]
        if not servers:
            return None
        s = rng.choice(servers)
        ch = [[live[s].base_ram_consumption, ns.SourceValue(50000 * ns.u.GB)]]
        if flavour.startswith("link"):
            e = gen.random_edit(rng, model, ["list", "link"])
            if e[0] not in ("list", "link"):
                return None
            ch = [efx.new_value_for(ns, model, live, e)] + ch
        return ch, [], False
    kinds = {"input": ["input"], "struct": ["link", "list"], "mixed": ["group"]}[flavour]
    e = gen.random_edit(rng, model, kinds)
    if e[0] == "group":
        edits = [x for x in e[1] if x[0] in ("input", "link", "list") or (x[0] == "opt" and x[2] == "starts")]
    elif e[0] in ("input", "link", "list"):
        edits = [e]
    else:
        return None
    if not edits:
        return None
    return [efx.new_value_for(ns, model, live, x) for x in edits], edits, True


def one_history(ns, tid, seed, want_real_update=True):
    rng = random.Random(seed)
    model = gen.random_model(rng)
    try:
        live = efx.build(ns, model)
    except Exception:
        return []
    proj = Projector(ns)
    lo, hi, last_per_up = period(ns, live, model)
    if lo is None or hi == lo:
        return []
    flavour = rng.choice(["input", "input", "struct", "mixed", "mixed", "invalid", "not-allowed", "recompute-fails",
                          "link+recompute-fails"])
    date_kind = rng.choice(["first", "first", "interior", "interior", "last", "before", "after", "naive"])
    cl = change_list(ns, rng, model, live, flavour)
    if cl is None:
        return []
    changes, edits, expect_ok = cl
    n_hours = int((hi - lo).total_seconds() // 3600)
    date = {"first": lo, "interior": lo + timedelta(hours=rng.randint(1, max(1, n_hours - 1))), "last": hi,
            "before": lo - timedelta(hours=30), "after": hi + timedelta(hours=30), "naive": lo.tz_localize(None)}[date_kind]
    date = date.to_pydatetime()
    if date.tzinfo is not None and rng.random() < 0.4:
        # the same instant written in another zone is the same simulation date
        date = date.astimezone(ns.pytz.timezone(rng.choice(["Asia/Tokyo", "America/New_York", "Asia/Kolkata", "Europe/Paris"])))
    events, seq = [], 0
    st = proj.state(live)
    events.append(dict(tid=tid, seq=seq, ev="Baseline", seed=seed, flavour=flavour, **st))
    seq += 1
    outcome, exc, sim, exc_full = "created", "none", None, ""
    try:
        sim = ns.ModelingUpdate(changes, date)
    except Exception as ex:   # noqa
        outcome, exc, exc_full = "raised", f"{type(ex).__name__}: {str(ex)[:120]}", str(ex)
    ev = dict(tid=tid, seq=seq, ev="SimCreate", seed=seed, flavour=flavour, outcome=outcome, exc=exc, date_kind=date_kind,
              expect_ok=expect_ok, recomputed=[], period_refusal="modeling period" in exc_full,
              hourly_input_changed=any(x[0] == "opt" and x[2] == "starts" for x in edits),
              timeline_shifted=any(x[0] == "link" and x[2] == "country"
                                   and model[x[3]]["opt"]["tz"] != model[model[x[1]]["lnk"]["country"]]["opt"]["tz"] for x in edits),
              n_values_to_recompute=0, all_ups_active=False, date_hour=0,
              **proj.state(live))
    seq += 1
    if sim is not None:
        aware = date if date.tzinfo else date.replace(tzinfo=timezone.utc)
        ev["date_hour"] = int(aware.timestamp() // 3600)
        ev["all_ups_active"] = all(x >= aware for x in last_per_up) and len(last_per_up) == len(efx.names_of(model, "UsagePattern"))
        ev["n_values_to_recompute"] = len(sim.values_to_recompute)
        for old, new in zip(sim.values_to_recompute, sim.recomputed_values):
            owner = old.modeling_obj_container
            olds = list(old.items()) if isinstance(old, dict) else [(None, old)]
            news = dict(new.items()) if isinstance(new, dict) else {None: new}
            twin_ok = getattr(old, "simulation_twin", None) is new and getattr(new, "baseline_twin", None) is old
            slot0 = f"{getattr(owner, 'name', '<detached>')}|{old.attr_name_in_mod_obj_container}|" + ("#" if isinstance(old, dict) else "-")
            mins = []
            for k, nv in news.items():
                if isinstance(nv, ns.ExplainableHourlyQuantities):
                    mins.append(int(nv.value.index.min().timestamp() // 3600))
            ev["recomputed"].append({"slot": slot0, "baseline_tok": proj.token(old), "sim_tok": proj.token(new),
                                     "twin_ok": bool(twin_ok), "min_hour": min(mins) if mins else -1})
    events.append(ev)
    if sim is None:
        return events
    toggles = rng.choice([["set", "reset"], ["set", "set", "reset", "reset"], ["reset", "set", "reset", "set", "reset"]])
    sim_val_events = None
    for t in toggles:
        (sim.set_updated_values if t == "set" else sim.reset_values)()
        e = dict(tid=tid, seq=seq, ev="SimSet" if t == "set" else "SimReset", seed=seed, **proj.state(live))
        seq += 1
        events.append(e)
    if rng.random() < 0.6:
        # a second simulation is made on the same system (accepted or refused) while the first one is switched off: the baseline
        # stays what it was, and the FIRST simulation can still be switched on and back off
        cl2 = change_list(ns, rng, model, live, rng.choice(["input", "input", "struct", "mixed", "invalid", "recompute-fails"]))
        if cl2 is not None:
            outcome2, exc2 = "created", "none"
            try:
                ns.ModelingUpdate(cl2[0], (lo + timedelta(hours=rng.randint(0, max(0, n_hours - 1)))).to_pydatetime())
            except Exception as ex:   # noqa
                outcome2, exc2 = "raised", f"{type(ex).__name__}: {str(ex)[:120]}"
            events.append(dict(tid=tid, seq=seq, ev="SimOther", seed=seed, outcome=outcome2, exc=exc2, **proj.state(live)))
            seq += 1
            for t in ["set", "reset"] * rng.choice([1, 2]):
                try:
                    (sim.set_updated_values if t == "set" else sim.reset_values)()
                except Exception as ex:   # noqa: the state left behind is what the event shows
                    pass
                events.append(dict(tid=tid, seq=seq, ev="SimSet" if t == "set" else "SimReset", seed=seed, **proj.state(live)))
                seq += 1
    if want_real_update and date_kind == "first" and edits:
        # really apply the same changes to a rebuilt copy of the system
        twin = efx.build(ns, model)
        try:
            efx.apply_edit_live(ns, model, twin, ("group", edits) if len(edits) > 1 else edits[0], via_update=True)
            st2 = proj.state(twin)
            events.append(dict(tid=tid, seq=seq, ev="RealUpdate", seed=seed, val=st2["val"]))
        except Exception:
            pass
    return events


def recomputed_summary(ns, proj, sim):
    out = []
    for old, new in zip(sim.values_to_recompute, sim.recomputed_values):
        owner = old.modeling_obj_container
        news = dict(new.items()) if isinstance(new, dict) else {None: new}
        twin_ok = getattr(old, "simulation_twin", None) is new and getattr(new, "baseline_twin", None) is old
        slot0 = f"{getattr(owner, 'name', '<detached>')}|{old.attr_name_in_mod_obj_container}|" + ("#" if isinstance(old, dict) else "-")
        mins = [int(nv.value.index.min().timestamp() // 3600) for nv in news.values()
                if isinstance(nv, ns.ExplainableHourlyQuantities)]
        out.append({"slot": slot0, "baseline_tok": proj.token(old), "sim_tok": proj.token(new), "twin_ok": bool(twin_ok),
                    "min_hour": min(mins) if mins else -1})
    return out


def probe_inputs(ns, tid0, seed, per_model=14):
    """systematic part of C06: on one seeded system, a simulation of EVERY numeric input of every reachable object (one after
    the other, each at an interior date at which all usage patterns are active); only the clauses on the recomputed
    values are judged (twins, no hour before the date)"""
    rng = random.Random(seed)
    model = gen.random_model(rng)
    try:
        live = efx.build(ns, model)
    except Exception:
        return []
    lo, hi, last_per_up = period(ns, live, model)
    if lo is None or len(last_per_up) != len(efx.names_of(model, "UsagePattern")):
        return []
    firsts = [live[n].utc_hourly_usage_journey_starts.value.index.min() for n in efx.names_of(model, "UsagePattern")]
    lo_all, hi_all = max(firsts), min(last_per_up)      # every usage pattern is active in [lo_all, hi_all]
    if hi_all <= lo_all + timedelta(hours=1):
        return []
    proj = Projector(ns)
    names = sorted(efx.reachable(model))
    inputs = [(n, a) for n in names for a in model[n]["inp"]]
    rng.shuffle(inputs)
    events = []
    for k, (n, a) in enumerate(inputs[:per_model]):
        n_hours = int((hi_all - lo_all).total_seconds() // 3600)
        date = (lo_all + timedelta(hours=rng.randint(1, max(1, n_hours)))).to_pydatetime()
        mv = model[n]["inp"][a]
        edit = ("input", n, a, [mv[0] * 2 + (1 if mv[0] == 0 else 0), mv[1]])
        try:
            change = efx.new_value_for(ns, model, live, edit)
            sim = ns.ModelingUpdate([change], date)
        except Exception:   # noqa: refused simulations are C05's subject
            continue
        events.append(dict(tid=tid0 + k, seq=0, ev="SimProbe", seed=seed, flavour=f"probe:{model[n]['cls']}.{a}",
                           date_kind="interior", outcome="created", exc="none", expect_ok=True, hourly_input_changed=False,
                           timeline_shifted=False, all_ups_active=True, date_hour=int(date.timestamp() // 3600),
                           n_values_to_recompute=len(sim.values_to_recompute),
                           recomputed=recomputed_summary(ns, proj, sim)))
    return events


def probe_links(ns, tid0, seed, per_model=4):
    """systematic part of C06 for link changes: on one seeded system with at least two usage patterns, the usage patterns are
    put in two countries far apart (Pacific/Honolulu and Pacific/Auckland, then the other way round: which usage pattern the
    implementation meets first is not under the caller's control), and simulations of list / link changes are made at interior
    dates at which every usage pattern is active.  Judged like the input probes: twins paired, no simulated hour before the date."""
    rng = random.Random(seed)
    model0 = gen.random_model(rng)
    ups = efx.names_of(model0, "UsagePattern")
    if len(ups) < 2:
        return []
    events = []
    for order, zones in enumerate((("Pacific/Honolulu", "Pacific/Auckland"), ("Pacific/Auckland", "Pacific/Honolulu"))):
        model = copy.deepcopy(model0)
        # one country per usage pattern, alternately in the two zones
        c0 = model[ups[0]]["lnk"]["country"]
        for k, u in enumerate(ups):
            cn = f"cz{k}"
            model[cn] = copy.deepcopy(model0[c0])
            model[cn]["opt"]["tz"] = zones[k % 2]
            model[u]["lnk"]["country"] = cn
        try:
            live = efx.build(ns, model)
        except Exception:
            continue
        lo, hi, last_per_up = period(ns, live, model)
        if lo is None or len(last_per_up) != len(ups):
            continue
        firsts = [live[n].utc_hourly_usage_journey_starts.value.index.min() for n in ups]
        lo_all, hi_all = max(firsts), min(last_per_up)
        if hi_all <= lo_all + timedelta(hours=1):
            continue
        proj = Projector(ns)
        n_hours = int((hi_all - lo_all).total_seconds() // 3600)
        done = 0
        for _ in range(per_model * 6):
            if done >= per_model:
                break
            e = gen.random_edit(rng, model, ["list", "link"])
            if e is None or e[0] not in ("list", "link"):
                continue
            date = (lo_all + timedelta(hours=rng.randint(1, max(1, n_hours)))).to_pydatetime()
            try:
                change = efx.new_value_for(ns, model, live, e)
                sim = ns.ModelingUpdate([change], date)
            except Exception:   # noqa: refused simulations are C05's subject
                continue
            if not any(getattr(v.modeling_obj_container, "name", None) in ups for v in sim.values_to_recompute):
                continue        # the usage patterns are not recomputed by this change: nothing is clipped per zone
            # moving a usage pattern to a country in another zone is the recorded finding of C06 (clipped in the zone it had before)
            shifted = (e[0] == "link" and e[2] == "country"
                       and model[e[3]]["opt"]["tz"] != model[model[e[1]]["lnk"]["country"]]["opt"]["tz"])
            done += 0 if shifted else 1
            events.append(dict(tid=tid0 + len(events), seq=0, ev="SimProbe", seed=seed,
                               flavour=f"probe:{e[0]}:{model[e[1]]['cls']}.{e[2]}:zones-{order}", date_kind="interior",
                               outcome="created", exc="none", expect_ok=True, hourly_input_changed=False,
                               timeline_shifted=bool(shifted), all_ups_active=True, date_hour=int(date.timestamp() // 3600),
                               n_values_to_recompute=len(sim.values_to_recompute),
                               recomputed=recomputed_summary(ns, proj, sim)))
    return events


def plain_history(ns, tid, seed, n_updates=3, flavours=("input", "struct", "mixed", "invalid", "not-allowed", "recompute-fails",
                                                       "link+recompute-fails")):
    """undated updates (ordinary edits made through ModelingUpdate), accepted and refused ones, on one seeded system: after each
    the identity-level state is projected (EFSim's Update action: all or nothing, closed graph)"""
    rng = random.Random(seed)
    model = gen.random_model(rng)
    try:
        live = efx.build(ns, model)
    except Exception:
        return []
    proj = Projector(ns)
    events = [dict(tid=tid, seq=0, ev="Baseline", seed=seed, flavour="plain", **proj.state(live))]
    seq = 1
    for _ in range(n_updates):
        flavour = rng.choice(list(flavours))
        cl = change_list(ns, rng, model, live, flavour)
        if cl is None:
            continue
        changes, edits, expect_ok = cl
        outcome, exc = "updated", "none"
        try:
            ns.ModelingUpdate(changes)
        except Exception as ex:   # noqa
            outcome, exc = "raised", f"{type(ex).__name__}: {str(ex)[:120]}"
        if outcome == "updated":
            for e in edits:
                model = efx.apply_edit_abstract(model, e)
        st = proj.state(live)
        reach = efx.reachable(model)
        live_toks = sorted({tk for s, tk in st["tok"].items() if not s.endswith("|#") and s.split("|")[0] in reach})
        events.append(dict(tid=tid, seq=seq, ev="PlainUpdate", seed=seed, flavour=flavour, outcome=outcome, exc=exc,
                           expect_ok=expect_ok, live_toks=live_toks, **st))
        seq += 1
        if outcome == "raised" and expect_ok:
            break           # an unexpected refusal: the abstract model no longer follows
    return events
