"""Run TLC on the specifications under /verif/spec and parse what it says."""
import os
import re
import shutil
import subprocess
import time

from .common import SPEC_DIR, MachineryError

JAR = "/opt/veriftools/tla/tla2tools.jar"
DEPS = "/opt/veriftools/tla/CommunityModules-deps.jar"


class TLCResult:
    def __init__(self):
        self.out = ""
        self.rc = None
        self.generated = 0
        self.distinct = 0
        self.wall = 0.0
        self.mode = "bfs"
        self.completed = False       # finished exploring without being stopped
        self.error = None            # None | "invariant:<name>" | "property:<name>" | "assert" | "other:<text>"
        self.prints = []             # raw text of PrintT outputs (one per line)
        self.timed_out = False

    @property
    def ok(self):
        return self.error is None


def stage_specs(workdir):
    """Copy every spec file into the scratch directory so TLC never writes
    next to the committed sources."""
    for name in os.listdir(SPEC_DIR):
        if name.endswith((".tla", ".cfg")):
            shutil.copy(os.path.join(SPEC_DIR, name), os.path.join(workdir, name))


def run_tlc(workdir, module, cfg, workers=16, simulate=None, depth=None, timeout=1800,
            extra=(), heap="8g", deadlock=False, env_extra=None, seed=None, dfs=False):
    """cfg: name of a .cfg file already in workdir (or text to be written as <module>.gen.cfg).
    simulate: None for BFS, else dict(num=..., file=...)"""
    if "\n" in cfg or not cfg.endswith(".cfg"):
        cfg_name = f"{module}.gen.cfg"
        with open(os.path.join(workdir, cfg_name), "w") as f:
            f.write(cfg)
    else:
        cfg_name = cfg
    meta = os.path.join(workdir, f"meta-{module}-{int(time.time()*1000) % 100000}")
    cmd = ["java", "-XX:+UseParallelGC", f"-Xmx{heap}", "-Xss512m"]
    if dfs:
        cmd.append("-Dtlc2.tool.queue.IStateQueue=StateDeque")
    cmd += ["-cp", f"{JAR}:{DEPS}", "tlc2.TLC", "-workers", str(workers), "-metadir", meta,
            "-noGenerateSpecTE", "-config", cfg_name]
    if not deadlock:
        cmd.append("-deadlock")   # "-deadlock" DISABLES deadlock checking in TLC
    if simulate is not None:
        sim = ",".join(f"{k}={v}" for k, v in simulate.items())
        cmd += ["-simulate", sim] if sim else ["-simulate"]
    if depth is not None:
        cmd += ["-depth", str(depth)]
    if seed is not None:
        cmd += ["-seed", str(seed)]
    cmd += list(extra)
    cmd.append(module)
    env = dict(os.environ)
    env.pop("JAVA_TOOL_OPTIONS", None)
    if env_extra:
        env.update(env_extra)
    res = TLCResult()
    res.mode = "simulate" if simulate is not None else "bfs"
    t0 = time.time()
    try:
        p = subprocess.run(cmd, cwd=workdir, env=env, capture_output=True, text=True, timeout=timeout)
        res.out = p.stdout + ("\n" + p.stderr if p.stderr.strip() else "")
        res.rc = p.returncode
    except subprocess.TimeoutExpired as e:
        res.timed_out = True
        res.out = (e.stdout.decode() if isinstance(e.stdout, bytes) else (e.stdout or ""))
        subprocess.run(["pkill", "-f", f"metadir {meta}"], capture_output=True)
    res.wall = time.time() - t0
    shutil.rmtree(meta, ignore_errors=True)
    parse(res)
    return res


_RE_STATES = re.compile(r"(\d+) states generated, (\d+) distinct states found")
_RE_SIM = re.compile(r"The number of states generated: (\d+)")


def parse(res):
    out = res.out
    ms = _RE_STATES.findall(out)
    if ms:
        res.generated, res.distinct = int(ms[-1][0]), int(ms[-1][1])
    m = _RE_SIM.search(out)
    if m:
        res.generated = int(m.group(1))
        res.distinct = res.distinct or res.generated
    if "Model checking completed. No error has been found." in out:
        res.completed = True
    m = re.search(r"Error: Invariant (\S+) is violated", out)
    if m:
        res.error = f"invariant:{m.group(1)}"
    elif re.search(r"Error: Action property (\S+)", out):
        res.error = "property:" + re.search(r"Error: Action property (\S+)", out).group(1)
    elif "Error: Temporal properties were violated" in out:
        res.error = "property:temporal"
    elif "The first argument of Assert evaluated to FALSE" in out:
        res.error = "assert"
    elif re.search(r"Error: The postcondition", out) or "Postcondition" in out and "violated" in out:
        res.error = "postcondition"
    elif re.search(r"^Error:", out, re.M):
        idx = re.search(r"^Error:", out, re.M).start()
        res.error = "other:" + out[idx:idx + 600]
    elif res.timed_out:
        # a simulation or an oversized BFS stopped by the outer time limit is not an error
        pass
    elif res.rc not in (0, None):
        res.error = f"other:exit status {res.rc}: {out[-600:]}"
    res.prints = [ln for ln in out.splitlines() if ln.startswith("<<") or ln.startswith('"') or ln.startswith("[")]
    return res


def require_clean(res, what):
    """Raise MachineryError if TLC failed for a reason that is not a property violation."""
    if res.error and res.error.startswith("other:"):
        raise MachineryError(f"TLC failed on {what}: {res.error[6:]}")
    if res.generated == 0 and not res.timed_out:
        raise MachineryError(f"TLC explored nothing on {what}:\n{res.out[-1500:]}")


def run_tlapm(workdir, module, timeout=600):
    """Checks the proofs of spec/<module>.tla with the TLA+ proof system (tlapm, SMT / Zenon / Isabelle back ends) in
    the scratch directory.  Returns a dict {available, proved, failed, wall_s, tail}; `available` is False when the tool
    is not installed (the caller records that the unbounded proofs were not re-checked, which is not a failure of the code)."""
    import shutil as _sh, subprocess as _sp, time as _t
    exe = _sh.which("tlapm")
    if exe is None:
        return {"available": False, "proved": 0, "failed": None, "wall_s": 0.0, "tail": "tlapm not on PATH"}
    t0 = _t.time()
    try:
        p = _sp.run([exe, "--threads", "8", "--cleanfp", module + ".tla"], cwd=workdir, stdout=_sp.PIPE, stderr=_sp.STDOUT,
                    text=True, timeout=timeout)
        out = p.stdout
    except _sp.TimeoutExpired as e:
        out = (e.stdout or "") + "\n[timeout]"
    m = re.search(r"All (\d+) obligations? proved", out)
    f = re.search(r"(\d+)/(\d+) obligations? failed", out)
    return {"available": True, "proved": int(m.group(1)) if m else (int(f.group(2)) - int(f.group(1)) if f else 0),
            "failed": 0 if m else (int(f.group(1)) if f else None), "wall_s": round(_t.time() - t0, 2), "tail": out[-1500:]}


def tla_str(s):
    return '"' + s.replace("\\", "\\\\").replace('"', '\\"') + '"'
