"""Driving the real e-footprint code from an abstract, JSON-able model.

An *abstract model* is a dict  name -> object description
    {"cls": "Job", "inp": {attr: [magnitude, "unit"]}, "lnk": {attr: name}, "lst": {attr: [names]},
     "opt": {...class specific: starts/start/tz/server_type/fixed_nb...}}
plus the key "__order__" (creation order) -- everything the public API needs to build
the system from scratch.  `build` creates real objects, `apply_edit` performs the same
edit on the abstract model and on the live objects, `snapshot` projects every value
of the live system into a comparable, unit-free form and `diff` compares two
snapshots hour by hour.  Nothing here knows what the expected numbers are: that is
the specification's job.
"""
import copy as _copy
import math
import os
import sys
from datetime import datetime, timedelta

from .common import REPO, GUARD

_LOADED = {}


def load():
    """Import e-footprint from the repository's working tree with hooks on."""
    if _LOADED:
        return _LOADED["ns"]
    os.environ[GUARD] = "1"
    os.environ.setdefault("MPLBACKEND", "Agg")
    if REPO not in sys.path:
        sys.path.insert(0, REPO)
    import logging
    from efootprint.logger import logger
    logger.setLevel(logging.ERROR)
    for h in logger.handlers:
        h.setLevel(logging.ERROR)
    import efootprint
    assert os.path.abspath(efootprint.__file__).startswith(os.path.abspath(REPO)), efootprint.__file__
    from types import SimpleNamespace
    import pytz
    import pandas as pd
    import numpy as np
    from efootprint.constants.units import u
    from efootprint.abstract_modeling_classes.source_objects import SourceValue, SourceObject, SourceHourlyValues
    from efootprint.abstract_modeling_classes.explainable_objects import (
        ExplainableQuantity, ExplainableHourlyQuantities, EmptyExplainableObject)
    from efootprint.abstract_modeling_classes.explainable_object_base_class import ExplainableObject, Source
    from efootprint.abstract_modeling_classes.explainable_object_base_class import \
        retrieve_update_function_from_mod_obj_and_attr_name as retrieve_update_function
    from efootprint.abstract_modeling_classes.explainable_object_dict import ExplainableObjectDict
    from efootprint.abstract_modeling_classes.modeling_object import ModelingObject
    from efootprint.abstract_modeling_classes.modeling_update import ModelingUpdate
    from efootprint.abstract_modeling_classes.list_linked_to_modeling_obj import ListLinkedToModelingObj
    from efootprint.abstract_modeling_classes.contextual_modeling_object_attribute import \
        ContextualModelingObjectAttribute
    from efootprint.builders.time_builders import create_hourly_usage_df_from_list
    from efootprint.core import all_classes_in_order as aco
    from efootprint.core.hardware.server_base import ServerTypes
    from efootprint.utils import verif_trace
    from efootprint.api_utils.json_to_system import json_to_system
    from efootprint.api_utils.system_to_json import system_to_json
    ns = SimpleNamespace(**locals())
    ns.classes = {c.__name__: c for c in aco.ALL_EFOOTPRINT_CLASSES}
    _LOADED["ns"] = ns
    return ns


# ---------------------------------------------------------------------------
# class schema of the abstract model (core classes; builder classes are added by props/c17)

SCHEMA = {
    "Storage": {"inp": ["carbon_footprint_fabrication_per_storage_capacity", "power_per_storage_capacity", "lifespan",
                        "idle_power", "storage_capacity", "data_replication_factor", "data_storage_duration",
                        "base_storage_need"], "lnk": [], "lst": []},
    "Server": {"inp": ["carbon_footprint_fabrication", "power", "lifespan", "idle_power", "ram", "compute",
                       "power_usage_effectiveness", "average_carbon_intensity", "server_utilization_rate",
                       "base_ram_consumption", "base_compute_consumption"], "lnk": ["storage"], "lst": []},
    "Job": {"inp": ["data_transferred", "data_stored", "request_duration", "compute_needed", "ram_needed"],
            "lnk": ["server"], "lst": []},
    "UsageJourneyStep": {"inp": ["user_time_spent"], "lnk": [], "lst": ["jobs"]},
    "UsageJourney": {"inp": [], "lnk": [], "lst": ["uj_steps"]},
    "Device": {"inp": ["carbon_footprint_fabrication", "power", "lifespan", "fraction_of_usage_time"],
               "lnk": [], "lst": []},
    "Network": {"inp": ["bandwidth_energy_intensity"], "lnk": [], "lst": []},
    "Country": {"inp": ["average_carbon_intensity"], "lnk": [], "lst": []},
    "UsagePattern": {"inp": [], "lnk": ["usage_journey", "network", "country"], "lst": ["devices"]},
    "System": {"inp": [], "lnk": [], "lst": ["usage_patterns"]},
}
# creation must respect: linked objects exist before the object that links to them
CLASS_RANK = {"Storage": 0, "Server": 1, "Job": 2, "UsageJourneyStep": 3, "UsageJourney": 4, "Device": 0,
              "Network": 0, "Country": 0, "UsagePattern": 5, "System": 6}

DEFAULTS = {
    "Storage": {"carbon_footprint_fabrication_per_storage_capacity": [160, "kg/TB"],
                "power_per_storage_capacity": [1.3, "W/TB"], "lifespan": [6, "year"], "idle_power": [0.1, "W"],
                "storage_capacity": [1, "TB"], "data_replication_factor": [3, "dimensionless"],
                "data_storage_duration": [5, "year"], "base_storage_need": [0, "TB"]},
    "Server": {"carbon_footprint_fabrication": [600, "kg"], "power": [300, "W"], "lifespan": [6, "year"],
               "idle_power": [50, "W"], "ram": [128, "GB"], "compute": [24, "cpu_core"],
               "power_usage_effectiveness": [1.2, "dimensionless"], "average_carbon_intensity": [100, "g/kWh"],
               "server_utilization_rate": [0.9, "dimensionless"], "base_ram_consumption": [1, "GB"],
               "base_compute_consumption": [1, "cpu_core"]},
    "Job": {"data_transferred": [150, "kB"], "data_stored": [100, "kB"], "request_duration": [1, "s"],
            "compute_needed": [0.1, "cpu_core"], "ram_needed": [50, "MB"]},
    "UsageJourneyStep": {"user_time_spent": [1, "min"]},
    "Device": {"carbon_footprint_fabrication": [150, "kg"], "power": [50, "W"], "lifespan": [6, "year"],
               "fraction_of_usage_time": [7, "hour/day"]},
    "Network": {"bandwidth_energy_intensity": [0.1, "kWh/GB"]},
    "Country": {"average_carbon_intensity": [85, "g/kWh"]},
}


def new_obj(cls, **kw):
    d = {"cls": cls, "inp": {k: list(v) for k, v in DEFAULTS.get(cls, {}).items()}, "lnk": {}, "lst": {}, "opt": {}}
    for k, v in kw.items():
        if k in SCHEMA[cls]["inp"]:
            d["inp"][k] = list(v)
        elif k in SCHEMA[cls]["lnk"]:
            d["lnk"][k] = v
        elif k in SCHEMA[cls]["lst"]:
            d["lst"][k] = list(v)
        else:
            d["opt"][k] = v
    if cls == "Server":
        d["opt"].setdefault("server_type", "autoscaling")
        d["opt"].setdefault("fixed_nb", None)
    if cls == "Storage":
        d["opt"].setdefault("fixed_nb", None)
    if cls == "Country":
        d["opt"].setdefault("tz", "Europe/Paris")
    if cls == "UsagePattern":
        d["opt"].setdefault("starts", [1, 2, 3])
        d["opt"].setdefault("start", "2025-01-01T00:00:00")
    return d


def names_of(model, cls):
    return [n for n, d in model.items() if not n.startswith("__") and d["cls"] == cls]


def system_name(model):
    return names_of(model, "System")[0]


def default_order(model):
    names = [n for n in model if not n.startswith("__")]
    return sorted(names, key=lambda n: (CLASS_RANK[model[n]["cls"]], n))


def reachable(model):
    """names of the objects reachable from the system through forward links"""
    seen, todo = set(), [system_name(model)]
    while todo:
        n = todo.pop()
        if n in seen:
            continue
        seen.add(n)
        d = model[n]
        todo += list(d["lnk"].values())
        for l in d["lst"].values():
            todo += l
    return seen


# ---------------------------------------------------------------------------
# building real objects

def q(ns, mv):
    return ns.SourceValue(mv[0] * ns.u(mv[1]))


def hourly(ns, values, start, unit="dimensionless"):
    start_dt = datetime.fromisoformat(start) if isinstance(start, str) else start
    return ns.SourceHourlyValues(ns.create_hourly_usage_df_from_list(
        [float(v) for v in values], start_date=start_dt, pint_unit=ns.u(unit).units))


def server_type(ns, name):
    return {"autoscaling": ns.ServerTypes.autoscaling, "on-premise": ns.ServerTypes.on_premise,
            "serverless": ns.ServerTypes.serverless}[name]()


def fixed_nb(ns, v):
    return ns.EmptyExplainableObject() if v is None else ns.SourceValue(v * ns.u.dimensionless)


def make_object(ns, model, name, live):
    d = model[name]
    cls = d["cls"]
    kw = {a: q(ns, mv) for a, mv in d["inp"].items()}
    for a, t in d["lnk"].items():
        kw[a] = live[t]
    for a, l in d["lst"].items():
        kw[a] = [live[t] for t in l]
    o = d["opt"]
    if cls == "Server":
        kw["server_type"] = server_type(ns, o["server_type"])
        kw["fixed_nb_of_instances"] = fixed_nb(ns, o["fixed_nb"])
    elif cls == "Storage":
        kw["fixed_nb_of_instances"] = fixed_nb(ns, o["fixed_nb"])
    elif cls == "Country":
        kw["short_name"] = name[:3].upper()
        kw["timezone"] = ns.SourceObject(ns.pytz.timezone(o["tz"]))
    elif cls == "UsagePattern":
        kw["hourly_usage_journey_starts"] = hourly(ns, o["starts"], o["start"])
    elif cls in EXTRA_MAKERS:
        return EXTRA_MAKERS[cls](ns, model, name, live, kw)
    return ns.classes[cls](o.get("display", name), **kw)


EXTRA_MAKERS = {}


def build(ns, model, order=None):
    """Create every object of the abstract model (in `order`) and return name -> live object."""
    live = {}
    for name in (order or model.get("__order__") or default_order(model)):
        live[name] = make_object(ns, model, name, live)
    return live


# ---------------------------------------------------------------------------
# edits

def apply_edit_abstract(model, edit):
    """Return the abstract model after `edit` (pure)."""
    m = _copy.deepcopy(model)
    kind = edit[0]
    if kind == "group":
        for e in edit[1]:
            m = apply_edit_abstract(m, e)
        return m
    if kind == "input":
        _, o, a, mv = edit
        m[o]["inp"][a] = list(mv)
    elif kind == "opt":
        _, o, a, v = edit
        if a == "starts":
            m[o]["opt"]["starts"], m[o]["opt"]["start"] = list(v[0]), v[1]
        else:
            m[o]["opt"][a] = v
    elif kind == "link":
        _, o, a, t = edit
        m[o]["lnk"][a] = t
    elif kind == "list":
        _, o, a, l = edit
        m[o]["lst"][a] = list(l)
    elif kind == "listop":
        _, o, a, op, args = edit
        m[o]["lst"][a] = pylist_op(list(m[o]["lst"][a]), op, args)
    elif kind == "add_up":
        _, name, desc = edit
        m[name] = _copy.deepcopy(desc)
        sysn = system_name(m)
        m[sysn]["lst"]["usage_patterns"] = m[sysn]["lst"]["usage_patterns"] + [name]
        if "__order__" in m:
            m["__order__"] = [n for n in m["__order__"] if n != sysn] + [name, sysn]
    elif kind == "del_up":
        _, name = edit
        sysn = system_name(m)
        m[sysn]["lst"]["usage_patterns"] = [n for n in m[sysn]["lst"]["usage_patterns"] if n != name]
        del m[name]
        if "__order__" in m:
            m["__order__"] = [n for n in m["__order__"] if n != name]
    else:
        raise ValueError(edit)
    return m


def pylist_op(lst, op, args):
    """Reference semantics: the Python list operation itself (raises like Python does)."""
    if op == "append":
        lst.append(args[0])
    elif op == "insert":
        lst.insert(args[0], args[1])
    elif op in ("extend", "iadd", "extend_gen", "iadd_gen", "iadd_self"):
        lst.extend(args[0])
    elif op == "imul":
        lst *= args[0]
    elif op == "pop":
        lst.pop(*args)
    elif op == "remove":
        lst.remove(args[0])
    elif op == "delitem":
        del lst[args[0]]
    elif op == "setitem":
        lst[args[0]] = args[1]
    elif op == "clear":
        lst.clear()
    else:
        raise ValueError(op)
    return lst


def new_value_for(ns, model, live, e):
    """(old value object, new value) pair of a single change, as ModelingUpdate wants it."""
    kind = e[0]
    if kind == "input":
        _, o, a, mv = e
        return [getattr(live[o], a), q(ns, mv)]
    if kind == "opt":
        _, o, a, v = e
        if a == "starts":
            return [live[o].hourly_usage_journey_starts, hourly(ns, v[0], v[1])]
        if a == "tz":
            return [live[o].timezone, ns.SourceObject(ns.pytz.timezone(v))]
        if a == "server_type":
            return [live[o].server_type, server_type(ns, v)]
        if a == "fixed_nb":
            return [live[o].fixed_nb_of_instances, fixed_nb(ns, v)]
        raise ValueError(e)
    if kind == "link":
        _, o, a, t = e
        return [getattr(live[o], a), live[t]]
    if kind == "list":
        _, o, a, l = e
        return [getattr(live[o], a), [live[t] for t in l]]
    raise ValueError(e)


OPT_ATTR = {"starts": "hourly_usage_journey_starts", "tz": "timezone", "server_type": "server_type",
            "fixed_nb": "fixed_nb_of_instances"}


def apply_edit_live(ns, model, live, edit, via_update=False):
    """Perform `edit` on the live objects through the public API. `model` is the abstract
    model BEFORE the edit. May raise whatever e-footprint raises."""
    kind = edit[0]
    if kind == "group":
        changes = [new_value_for(ns, model, live, e) for e in edit[1]]
        ns.ModelingUpdate(changes)
    elif kind in ("input", "opt", "link", "list"):
        old, new = new_value_for(ns, model, live, edit)
        if via_update:
            ns.ModelingUpdate([[old, new]])
        else:
            attr = edit[2] if kind != "opt" else OPT_ATTR[edit[2]]
            setattr(live[edit[1]], attr, new)
    elif kind == "listop":
        _, o, a, op, args = edit
        lst = getattr(live[o], a)
        conv = lambda x: live[x] if isinstance(x, str) else x
        if op == "append":
            lst.append(conv(args[0]))
        elif op == "insert":
            lst.insert(args[0], conv(args[1]))
        elif op == "extend":
            lst.extend([conv(x) for x in args[0]])
        elif op == "extend_gen":                       # any iterable is a valid argument of extend / +=
            lst.extend(conv(x) for x in args[0])
        elif op == "iadd":
            tmp = getattr(live[o], a)
            tmp += [conv(x) for x in args[0]]
            setattr(live[o], a, tmp)      # what `obj.attr += [...]` does
        elif op == "iadd_gen":
            tmp = getattr(live[o], a)
            tmp += (conv(x) for x in args[0])
            setattr(live[o], a, tmp)
        elif op == "iadd_self":                        # lst += lst doubles a Python list
            tmp = getattr(live[o], a)
            tmp += tmp
            setattr(live[o], a, tmp)
        elif op == "imul":
            tmp = getattr(live[o], a)
            tmp *= args[0]
            setattr(live[o], a, tmp)
        elif op == "pop":
            lst.pop(*args)
        elif op == "remove":
            lst.remove(conv(args[0]))
        elif op == "delitem":
            del lst[args[0]]
        elif op == "setitem":
            lst[args[0]] = conv(args[1])
        elif op == "clear":
            lst.clear()
        else:
            raise ValueError(op)
    elif kind == "add_up":
        _, name, desc = edit
        tmp_model = dict(model)
        tmp_model[name] = desc
        live[name] = make_object(ns, tmp_model, name, live)
        sysn = system_name(model)
        live[sysn].usage_patterns += [live[name]]
    elif kind == "del_up":
        _, name = edit
        sysn = system_name(model)
        live[sysn].usage_patterns = [live[n] for n in model[sysn]["lst"]["usage_patterns"] if n != name]
        live[name].self_delete()
        del live[name]
    else:
        raise ValueError(edit)


# ---------------------------------------------------------------------------
# projection of values

EPOCH_NS_PER_H = 3600 * 10 ** 9


def _dims(ns, units):
    d = dict(ns.u.get_dimensionality(units))
    return tuple(sorted((k, round(float(v), 6)) for k, v in d.items() if v != 0))


_FACTOR_CACHE = {}


def _base_factor(ns, units):
    key = str(units)
    if key not in _FACTOR_CACHE:
        _FACTOR_CACHE[key] = float(ns.u.Quantity(1.0, units).to_base_units().magnitude)
    return _FACTOR_CACHE[key]


def project_value(ns, v):
    """unit-free, comparable form of an ExplainableObject"""
    if isinstance(v, ns.EmptyExplainableObject):
        return ("E",)
    if isinstance(v, ns.ExplainableHourlyQuantities):
        df = v.value
        units = df.dtypes.iloc[0].units
        f = _base_factor(ns, units)
        idx = df.index
        naive = idx.tz is None
        # keyed by the hour since the epoch; a time stamp that is not on the hour keeps its fraction (a series starting at 05:30 is
        # not the series starting at 05:00)
        hours = [int(t) // EPOCH_NS_PER_H if int(t) % EPOCH_NS_PER_H == 0 else int(t) / EPOCH_NS_PER_H for t in idx.asi8]
        mags = [float(x) * f for x in df["value"].values._data]
        return ("H", _dims(ns, units), naive, dict(zip(hours, mags)), len(hours))
    if isinstance(v, ns.ExplainableQuantity):
        return ("Q", _dims(ns, v.value.units), float(v.value.magnitude) * _base_factor(ns, v.value.units))
    if isinstance(v, ns.ExplainableObject):
        val = v.value
        return ("O", getattr(val, "zone", None) or str(val))
    if isinstance(v, dict):
        return ("D", {getattr(k, "name", k): project_value(ns, x) for k, x in v.items()})
    raise TypeError(type(v))


def values_equal(a, b, rtol=1e-9, atol=1e-12):
    """Numerical equality hour by hour (a missing hour counts as zero, an empty value as zero everywhere)."""
    if a[0] == "D" or b[0] == "D":
        if a[0] != b[0]:
            return False
        keys = set(a[1]) | set(b[1])
        return all(values_equal(a[1].get(k, ("E",)), b[1].get(k, ("E",)), rtol, atol) for k in keys)
    if a[0] == "O" or b[0] == "O":
        return a == b
    if a[0] == "E" and b[0] == "E":
        return True

    def close(x, y):
        if math.isnan(x) or math.isnan(y):
            return math.isnan(x) and math.isnan(y)
        return abs(x - y) <= atol + rtol * max(abs(x), abs(y))
    if "H" in (a[0], b[0]):
        ha = a[3] if a[0] == "H" else {}
        hb = b[3] if b[0] == "H" else {}
        if a[0] == "Q" or b[0] == "Q":
            return False
        if a[0] == "H" and b[0] == "H" and (a[1] != b[1] or a[2] != b[2]):
            return False
        # hours at which large terms cancel carry a float residue proportional to those terms, not to the (near zero) result:
        # an absolute tolerance of 1e-12 of the largest value of the two series is added
        scale = max([abs(v) for v in ha.values() if not math.isnan(v)] + [abs(v) for v in hb.values() if not math.isnan(v)]
                    + [0.0])
        return all(close(ha.get(h, 0.0), hb.get(h, 0.0)) or abs(ha.get(h, 0.0) - hb.get(h, 0.0)) <= 1e-12 * scale
                   for h in set(ha) | set(hb))
    # scalars / empty
    xa = a[2] if a[0] == "Q" else 0.0
    xb = b[2] if b[0] == "Q" else 0.0
    if a[0] == "Q" and b[0] == "Q" and a[1] != b[1]:
        return False
    return close(xa, xb)


def explainable_attrs(ns, obj):
    out = {}
    for k, v in obj.__dict__.items():
        if isinstance(v, ns.ExplainableObject) or isinstance(v, ns.ExplainableObjectDict):
            out[k] = v
    return out


BOOKKEEPING = ("previous_total_energy_footprints_sum_over_period",
               "previous_total_fabrication_footprints_sum_over_period",
               "initial_total_energy_footprints_sum_over_period",
               "initial_total_fabrication_footprints_sum_over_period")


def snapshot(ns, live, names=None):
    """{obj name: {attr: projected value}} for inputs and calculated attributes"""
    snap = {}
    for n in (names if names is not None else live):
        o = live[n]
        snap[n] = {a: project_value(ns, v) for a, v in explainable_attrs(ns, o).items()}
    return snap


TOTAL_ATOL = 2.1e-4   # System.total_footprint is rounded to 4 decimals (kg): two roundings may differ by one step


def diff(snap_a, snap_b, names=None, calc_only=None):
    """list of (obj, attr) whose values differ between two snapshots (restricted to `names`)"""
    out = []
    for n in (names if names is not None else snap_a):
        if n not in snap_a or n not in snap_b:
            out.append((n, "<missing>"))
            continue
        for a in sorted(set(snap_a[n]) | set(snap_b[n])):
            if a in BOOKKEEPING:
                continue
            va, vb = snap_a[n].get(a), snap_b[n].get(a)
            if va is None or vb is None:
                out.append((n, a))
                continue
            atol = TOTAL_ATOL if a == "total_footprint" else 1e-12
            if not values_equal(va, vb, atol=atol):
                out.append((n, a))
    return out


def topology(ns, live):
    """forward links of the live objects, read from the objects themselves"""
    topo = {}
    for n, o in live.items():
        lnk, lst = {}, {}
        for k, v in o.__dict__.items():
            if isinstance(v, ns.ListLinkedToModelingObj):
                lst[k] = [x.name for x in v]
            elif isinstance(v, ns.ContextualModelingObjectAttribute) or (
                    isinstance(v, ns.ModelingObject) and k != "modeling_obj_container"):
                lnk[k] = v.name
        topo[n] = {"lnk": lnk, "lst": lst}
    return topo


class EventLog:
    """Sink for the guarded hooks. Payloads are converted to plain names at emission time
    (afterwards the old values are detached and no longer know where they lived)."""

    def __init__(self, ns):
        self.ns = ns
        self.events = []
        ns.verif_trace.set_sink(self._sink)

    def _sink(self, name, payload):
        ns = self.ns
        rec = {"ev": name}
        if name == "compute_object":
            rec["obj"] = payload["obj"].name
        elif name == "chains":
            up = payload["update"]
            rec["obj_chain"] = [o.name for o in up.mod_objs_computation_chain]
            rec["attr_chain"] = [list(slot_of(ns, v)) for v in up.values_to_recompute]
            rec["changes"] = [list(slot_of(ns, old)) for old, _new in up.changes_list]
        elif name == "recomputed":
            rec["slot"] = list(slot_of(ns, payload["new"]))
        elif name == "update_begin":
            rec["sim"] = payload.get("simulation_date") is not None
            rec["n_changes"] = len(payload["update"].changes_list)
        elif name == "parsed":
            rec["n_changes"] = len(payload["update"].changes_list)
            rec["has_system"] = bool(payload.get("has_system"))
        self.events.append(rec)
        self.last_update = payload.get("update", getattr(self, "last_update", None))

    def clear(self):
        self.events = []

    def names(self):
        return [r["ev"] for r in self.events]

    def find(self, name):
        return [r for r in self.events if r["ev"] == name]

    def close(self):
        self.ns.verif_trace.set_sink(None)


def slot_of(ns, value):
    """(object name, attribute) of an attached value or dictionary"""
    c = value.modeling_obj_container
    return (c.name if c is not None else None, value.attr_name_in_mod_obj_container)


# ---------------------------------------------------------------------------
# slot-level comparison and topology export for the specification

CLS_KEY = {"UsagePattern": "ups", "UsageJourney": "ujs", "UsageJourneyStep": "steps", "Job": "jobs",
           "Server": "servers", "Storage": "storages", "Network": "nets", "Country": "countries",
           "Device": "devices"}


def topo_json(model):
    """the abstract model in the shape of EFCore's topology record"""
    t = {k: [] for k in CLS_KEY.values()}
    t.update({"uj": {}, "net": {}, "country": {}, "devs": {}, "stepsOf": {}, "jobsOf": {}, "server": {},
              "storage": {}, "sysups": []})
    for n, d in model.items():
        if n.startswith("__"):
            continue
        c = d["cls"]
        if c == "System":
            t["sysups"] = list(d["lst"]["usage_patterns"])
            continue
        t[CLS_KEY[c]].append(n)
        if c == "UsagePattern":
            t["uj"][n] = d["lnk"]["usage_journey"]
            t["net"][n] = d["lnk"]["network"]
            t["country"][n] = d["lnk"]["country"]
            t["devs"][n] = list(d["lst"]["devices"])
        elif c == "UsageJourney":
            t["stepsOf"][n] = list(d["lst"]["uj_steps"])
        elif c == "UsageJourneyStep":
            t["jobsOf"][n] = list(d["lst"]["jobs"])
        elif c == "Job":
            t["server"][n] = d["lnk"]["server"]
        elif c == "Server":
            t["storage"][n] = d["lnk"]["storage"]
    return t


def diff_slots(snap_a, snap_b, names, skip_inputs_of=None):
    """[obj, attr, key] triples that differ between two snapshots; key '-' for plain values, the
    usage pattern's name for dictionary entries, '#' when the key sets of a dictionary differ"""
    out = []
    for n in names:
        sa, sb = snap_a.get(n, {}), snap_b.get(n, {})
        for a in sorted(set(sa) | set(sb)):
            if a in BOOKKEEPING:
                continue
            va, vb = sa.get(a, ("E",)), sb.get(a, ("E",))
            atol = TOTAL_ATOL if a == "total_footprint" else 1e-12
            if va[0] == "D" or vb[0] == "D":
                da = va[1] if va[0] == "D" else {}
                db = vb[1] if vb[0] == "D" else {}
                # an entry that holds "no value" is numerically the same as no entry (a list mutation recomputes the jobs
                # while the usage patterns of the mutated list are still registered: the job then gets an empty entry for a
                # usage pattern that no longer reaches it)
                one_sided = [k for k in sorted(set(da) ^ set(db))
                             if not values_equal(da.get(k, ("E",)), db.get(k, ("E",)), atol=atol)]
                if one_sided:
                    out.append([n, a, "#"])
                for k in sorted(set(da) & set(db)):
                    if not values_equal(da[k], db[k], atol=atol):
                        out.append([n, a, k])
                for k in one_sided:
                    out.append([n, a, k])
            elif not values_equal(va, vb, atol=atol):
                out.append([n, a, "-"])
    return out
