"""./check selftest [--tier quick|thorough]  (VERIF_SELFTEST_PROPS="C01 C05 ..." restricts it)

Trace-corruption self-test: shows that the trace specifications are bound to what was recorded and are not vacuous.
For each property the quick check is run once on the unchanged tree with VERIF_KEEP_TRACES set, which keeps every
ndjson trace handed to TLC together with the trace module and its constants.  Then single fields of recorded events are
corrupted in a type-preserving way (integer +1 / -1, boolean flipped, string replaced by another value seen in the same
field, list element dropped or duplicated), one corruption per event and many events per file, and the trace module is
run again: a corrupted event counts as DETECTED when TLC prints a FAIL line for it that the uncorrupted trace did not
produce (or when the corrupted batch makes TLC stop with an evaluation error).  The report gives, per trace module and
per field, how many corruptions were detected; fields that are never detected are listed so that they can be reviewed
(bookkeeping fields such as seeds and labels that no clause reads are expected there).
Exit 0 when every module detects at least MIN_RATE of the corruptions of its semantic fields, 1 otherwise."""
import json
import os
import random
import shutil
import subprocess
import sys

from . import tlc, tracecheck
from .common import ROOT, WORK_ROOT, MachineryError

IGNORED = {"tid", "seq", "ev", "seed"}
MIN_RATE = 0.5
ALL = ["C%02d" % k for k in range(1, 21)]


def leaves(x, path=()):
    """(path, value) of every scalar leaf and every non-empty list of scalars"""
    if isinstance(x, dict):
        for k, v in x.items():
            yield from leaves(v, path + (k,))
    elif isinstance(x, list):
        if not x:
            yield path, x           # an empty list of differences can be corrupted into a non-empty one
        elif all(not isinstance(e, (dict, list)) for e in x):
            yield path, x
        else:
            for k, v in enumerate(x):
                yield from leaves(v, path + (k,))
    elif isinstance(x, (bool, int, str)):
        yield path, x


def set_path(x, path, v):
    for k in path[:-1]:
        x = x[k]
    x[path[-1]] = v


def field_name(path):
    return ".".join("*" if isinstance(k, int) else (k if "|" not in k else "<slot>") for k in path)


def corrupt(rng, ev, pool):
    cands = [(p, v) for p, v in leaves(ev) if p and p[0] not in IGNORED]
    if not cands:
        return None
    for _ in range(20):
        p, v = rng.choice(cands)
        f = field_name(p)
        if isinstance(v, bool):
            new = not v
        elif isinstance(v, int):
            new = (v + rng.choice([1, -1]) if v != 0 else 1) if rng.random() < 0.5 else 2 * v + 3   # small and large
        elif isinstance(v, str):
            others = [o for o in pool.get(f, ()) if o != v]
            if not others:
                continue
            new = rng.choice(sorted(others))
        elif isinstance(v, list) and not v:
            new = [["corrupted", "corrupted"]]
        else:
            new = list(v)
            if rng.random() < 0.5 and len(new) > 0:
                del new[rng.randrange(len(new))]
            else:
                new.append(new[rng.randrange(len(new))])
                if isinstance(new[-1], int) and not isinstance(new[-1], bool):
                    new[-1] += 1
        set_path(ev, p, new)
        return f
    return None


def run_module(wd, module, constants, events, tag):
    path = os.path.join(wd, f"{tag}.ndjson")
    with open(path, "w") as f:
        for e in events:
            f.write(json.dumps(e) + "\n")
    try:
        fails, _n, _r = tracecheck.validate(wd, module, path, constants, timeout=3000)
    except MachineryError as e:
        return None, str(e)[:300]
    return {(t, s) for t, s, _c, _d in fails}, None


def selftest_trace(wd, module, constants, events, rng, per_batch, n_batches, stats):
    base, err = run_module(wd, module, constants, events, "base")
    if base is None:
        raise MachineryError(f"uncorrupted trace of {module} is not accepted: {err}")
    pool = {}
    for e in events:
        for p, v in leaves(e):
            if isinstance(v, str):
                pool.setdefault(field_name(p), set()).add(v)
    for b in range(n_batches):
        evs = json.loads(json.dumps(events))
        idx = rng.sample(range(len(evs)), min(per_batch, len(evs)))
        done = {}
        for k in idx:
            f = corrupt(rng, evs[k], pool)
            if f:
                done[(evs[k]["tid"], evs[k]["seq"])] = f
        got, err = run_module(wd, module, constants, evs, f"corrupt{b}")
        if got is None and len(done) > 1:
            # the batch made TLC stop with an evaluation error: find out which corruptions do that, one at a time (at most 8)
            by_key = {(e["tid"], e["seq"]): k for k, e in enumerate(evs)}
            for key, f in list(done.items())[:8]:
                single = json.loads(json.dumps(events))
                single[by_key[key]] = evs[by_key[key]]
                g1, _e1 = run_module(wd, module, constants, single, f"corrupt{b}s")
                st = stats.setdefault(module, {}).setdefault(f, [0, 0, 0])
                st[0] += 1
                if g1 is None:
                    st[2] += 1
                elif (key in g1 and key not in base) or ((key[0], key[1] + 1) in g1 and (key[0], key[1] + 1) not in base):
                    st[1] += 1
            continue
        for key, f in done.items():
            st = stats.setdefault(module, {}).setdefault(f, [0, 0, 0])
            st[0] += 1
            if got is None:
                st[2] += 1          # the batch was rejected as a whole (evaluation error)
            elif key in got and key not in base:
                st[1] += 1
            elif got is not None:
                # a corrupted event may also be caught at the NEXT event of its history (state carried in the trace)
                nxt = (key[0], key[1] + 1)
                if nxt in got and nxt not in base:
                    st[1] += 1


def main(tier):
    props = os.environ.get("VERIF_SELFTEST_PROPS", "").split() or ALL
    rng = random.Random(int(os.environ.get("VERIF_SEED", "0")) + 77)
    root = os.path.join(WORK_ROOT, f"selftest-{os.getpid()}")
    shutil.rmtree(root, ignore_errors=True)
    os.makedirs(root)
    stats = {}
    try:
        for p in props:
            keep = os.path.join(root, p)
            env = dict(os.environ, VERIF_KEEP_TRACES=keep)
            r = subprocess.run([os.path.join(ROOT, "check"), p, "--tier", "quick"], env=env, capture_output=True, text=True,
                               cwd=ROOT)
            if r.returncode == 2:
                print(f"selftest: check {p} failed to run\n{r.stderr[-1500:]}")
                return 2
            metas = sorted(f for f in os.listdir(keep) if f.endswith(".meta.json")) if os.path.isdir(keep) else []
            for m in metas:
                meta = json.load(open(os.path.join(keep, m)))
                events = [json.loads(ln) for ln in open(os.path.join(keep, m.replace(".meta.json", ".ndjson")))]
                if len(events) < 2:
                    continue
                wd = os.path.join(root, "tlc-" + p + "-" + m.split(".")[0])
                os.makedirs(wd)
                tlc.stage_specs(wd)
                # keep the runs short: a window of at most 400 events made of whole histories
                if len(events) > 400:
                    tids = []
                    for e in events:
                        if e["tid"] not in tids:
                            tids.append(e["tid"])
                    chosen, n = set(), 0
                    for t in tids:
                        k = sum(1 for e in events if e["tid"] == t)
                        if n + k > 400 and chosen:
                            break
                        chosen.add(t)
                        n += k
                    events = [e for e in events if e["tid"] in chosen]
                selftest_trace(wd, meta["module"], meta["constants"], events, rng,
                               per_batch=max(3, len(events) // 6), n_batches=3 if tier == "quick" else 10, stats=stats)
                shutil.rmtree(wd, ignore_errors=True)
            shutil.rmtree(keep, ignore_errors=True)
            print(f"selftest: {p} done", flush=True)
        ok = True
        report = {}
        for module, fields in sorted(stats.items()):
            tot = sum(v[0] for v in fields.values())
            det = sum(v[1] + v[2] for v in fields.values())
            never = sorted(f for f, v in fields.items() if v[1] + v[2] == 0)
            sem_tot = sum(v[0] for f, v in fields.items() if f not in never)
            sem_det = sum(v[1] + v[2] for f, v in fields.items() if f not in never)
            rate = det / tot if tot else 0.0
            print(f"{module}: corrupted={tot} detected={det} ({rate:.0%}); fields never detected: {never}")
            report[module] = {"corrupted": tot, "detected": det, "fields": fields, "never_detected": never,
                              "rate_on_detectable_fields": (sem_det / sem_tot) if sem_tot else 0.0}
            if tot and rate < MIN_RATE:
                ok = False
        with open(os.path.join(ROOT, "selftest_report.json"), "w") as f:
            json.dump(report, f, indent=1)
        print("selftest ok" if ok else "selftest: some trace specification detects fewer than half of the corruptions")
        return 0 if ok else 1
    finally:
        shutil.rmtree(root, ignore_errors=True)
