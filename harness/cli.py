"""./check <property id | setup | selftest> [--tier quick|thorough] [--replay PATH]"""
import argparse
import importlib
import os
import shutil
import subprocess
import sys
import traceback

from .common import Outcome, MachineryError, ROOT, WORK_ROOT, REPO


def setup():
    """Offline sanity check of the tool chain; builds nothing (the checks read /repo directly)."""
    ok = True
    for tool in ("java", "tlc"):
        if shutil.which(tool) is None:
            print(f"missing tool: {tool}")
            ok = False
    p = subprocess.run(["java", "-cp", "/opt/veriftools/tla/tla2tools.jar", "tla2sany.SANY",
                        os.path.join(ROOT, "spec", "EFCore.tla")], capture_output=True, text=True, cwd=os.path.join(ROOT, "spec"))
    if "Semantic processing of module EFCore" not in p.stdout or "rror" in p.stdout.split("Semantic processing")[-1]:
        print(p.stdout[-2000:])
        ok = False
    p = subprocess.run(["/venv/bin/python", "-c", "import sys; sys.path.insert(0, %r); import efootprint.core.system" % REPO],
                       capture_output=True, text=True)
    if p.returncode != 0:
        print(p.stderr[-2000:])
        ok = False
    os.makedirs(WORK_ROOT, exist_ok=True)
    os.makedirs(os.path.join(ROOT, "evidence"), exist_ok=True)
    print("setup ok" if ok else "setup FAILED")
    return 0 if ok else 2


def main(argv=None):
    ap = argparse.ArgumentParser()
    ap.add_argument("what")
    ap.add_argument("--tier", default=os.environ.get("VERIF_TIER", "quick"), choices=["quick", "thorough"])
    ap.add_argument("--replay", default=None)
    args = ap.parse_args(argv)
    if args.what == "setup":
        return setup()
    if args.what == "selftest":
        from . import selftest
        return selftest.main(args.tier)
    prop = args.what.upper()
    try:
        mod = importlib.import_module(f"harness.props.{prop.lower()}")
    except ModuleNotFoundError:
        print(f"no check for {prop}", file=sys.stderr)
        return 2
    tier = args.tier
    if args.replay:
        # a replay re-runs the recorded exploration (same tier, same seed) and reports only the recorded signature
        import json
        try:
            with open(args.replay) as f:
                rec = json.load(f)
        except Exception as e:   # noqa
            print(f"MACHINERY-FAILURE: cannot read {args.replay}: {e}", file=sys.stderr)
            return 2
        os.environ["VERIF_SEED"] = str(rec.get("seed", 0))
        tier = rec.get("tier", "quick")
    out = Outcome(prop, tier)
    try:
        if args.replay:
            out.only_signature = rec.get("signature")
            if getattr(mod, "SPECIFIC_REPLAY", False):
                mod.replay(args.replay, out)
            else:
                mod.run(tier, out)
        else:
            mod.run(args.tier, out)
    except MachineryError as e:
        print(f"MACHINERY-FAILURE: {e}", file=sys.stderr)
        return 2
    except Exception:
        traceback.print_exc()
        print("MACHINERY-FAILURE: unexpected exception in the harness", file=sys.stderr)
        return 2
    return out.finish()


if __name__ == "__main__":
    sys.exit(main())
