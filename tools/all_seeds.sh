#!/bin/sh
# usage: tools/all_seeds.sh [lanes] : every kept seeded change against the check of its property, on scratch worktrees
L=${1:-4}
cd /verif; ls seeded > .work/seedlist.txt
for k in $(seq 1 $L); do
  ( awk -v k=$k -v L=$L 'NR % L == k % L' .work/seedlist.txt | while read S; do
      P=$(echo $S | cut -c1-3); tools/try_kept_seed.sh $S $P quick /tmp/seed/lane$k; done > .work/all_seeds_lane$k.out 2>&1 ) &
done
wait
cat .work/all_seeds_lane*.out | sort
for k in $(seq 1 $L); do git -C /repo worktree remove --force /tmp/seed/lane$k 2>/dev/null; done; git -C /repo worktree prune
