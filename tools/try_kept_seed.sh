#!/bin/sh
# usage: tools/try_kept_seed.sh <seed id> <check id> [tier] [worktree]
# applies seeded/<seed id>/patch.diff to a scratch worktree of /repo's HEAD (created on demand under /tmp/seed, never /repo
# itself), runs the check against it (EFOOTPRINT_REPO) with a scratch evidence directory, and undoes the change
S=/verif/seeded/$1/patch.diff; P=$2; T=${3:-quick}; D=${4:-/tmp/seed/wt_$$}
mkdir -p /tmp/seed
CREATED=0
[ -d $D ] || { git -C /repo worktree add -q --detach $D HEAD || exit 2; CREATED=1; }
git -C $D checkout -q --detach main && git -C $D checkout -q -- . || exit 2
git -C $D apply $S 2>/dev/null || git -C $D apply --3way $S 2>/dev/null || { echo "seed=$1 patch does not apply to HEAD"; git -C $D reset -q --hard; exit 3; }
cd /verif; mkdir -p .work/ev_seed .work/kept
EFOOTPRINT_REPO=$D VERIF_EVIDENCE_DIR=/verif/.work/ev_seed_$$ ./check $P --tier $T > .work/kept/$1.log 2>&1; RC=$?
rm -rf /verif/.work/ev_seed_$$
git -C $D reset -q --hard; git -C $D clean -fdq
[ $CREATED = 1 ] && { git -C /repo worktree remove --force $D; git -C /repo worktree prune; }
echo "seed=$1 check=$P exit=$RC $(grep -c '^VIOLATION' .work/kept/$1.log) violation lines: $(grep -h 'signature' .work/kept/$1.log | head -3 | tr -s ' ' | tr '\n' ';' | cut -c1-200)"
