#!/venv/bin/python
"""Run the repository's pinned test command (guard OFF) and compare with /root/.vp/BASELINE.json.
Usage: tools/baseline.py [repo_dir]   -> exit 0 iff every stable-pass test still passes."""
import json, os, subprocess, sys, tempfile, xml.etree.ElementTree as ET
repo = sys.argv[1] if len(sys.argv) > 1 else "/repo"
base = json.load(open("/root/.vp/BASELINE.json"))
fd, xml = tempfile.mkstemp(suffix=".xml"); os.close(fd)
env = dict(os.environ); env.pop("EFOOTPRINT_VERIF", None)
cmd = ["/venv/bin/python", "-m", "pytest", "-ra", "-q", "-p", "no:cacheprovider", "--timeout=900",
       "--continue-on-collection-errors", f"--junitxml={xml}"]
p = subprocess.run(cmd, cwd=repo, env=env, capture_output=True, text=True)
passed = set()
for tc in ET.parse(xml).getroot().iter("testcase"):
    if not any(ch.tag in ("failure", "error", "skipped") for ch in tc):
        passed.add(f"{tc.get('classname')}::{tc.get('name')}")
os.unlink(xml)
stable = set(base["stable_pass"])
missing = sorted(stable - passed)
print(f"passed={len(passed)} stable={len(stable)} missing={len(missing)}")
for m in missing[:20]:
    print("  MISSING", m)
for junk in ("tests/integration_tests/full_calculation_graph.html", "tests/integration_tests/object_relationships_graph.html"):
    pass
sys.exit(1 if missing else 0)
