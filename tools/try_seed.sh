#!/bin/sh
# usage: tools/try_seed.sh <seed id> <check id> [tier] : apply the seeded change to /repo, run the check, undo
S=/verif/seeded/$1/patch.diff
cd /verif
git -C /repo diff --quiet || { echo "repo dirty"; exit 2; }
git -C /repo apply --3way $S 2>/dev/null || git -C /repo apply $S || { echo "patch does not apply"; exit 2; }
./check $2 --tier ${3:-quick} > .work/try_$1_$2.log 2>&1; RC=$?
git -C /repo reset -q --hard HEAD
echo "seed=$1 check=$2 exit=$RC"; grep -E "signature|VIOLATION|^\[C" .work/try_$1_$2.log | head -12 | cut -c1-220
