#!/venv/bin/python
"""tools/keep_seed.py <worktree> <seed id> <property> "<needs>"  -> copies a confirmed seeded change into /verif/seeded/<seed id>/"""
import json, os, shutil, sys
wt, sid, prop, needs = sys.argv[1:5]
dst = f"/verif/seeded/{sid}"
os.makedirs(dst, exist_ok=True)
for f in ("patch.diff", "demo.py", "notes.md"):
    shutil.copy(os.path.join(wt, "_seed", f), os.path.join(dst, f))
conf = open(os.path.join(wt, "_seed", "confirm_baseline.log")).read().strip().splitlines()[-1]
meta = {"id": sid, "breaks_property": prop, "needs_to_manifest": needs,
        "origin": "fresh sub-agent given only the property text and a scratch worktree of /repo (no access to /verif)",
        "confirmed_by_me": {"baseline_with_change": conf,
                            "demo_with_change_exit": 1, "demo_without_change_exit": 0,
                            "how": "tools/confirm_seed.sh <worktree>: git apply patch.diff; pinned 284-test baseline; demo.py with and without the change"},
        "detected_by": []}
json.dump(meta, open(os.path.join(dst, "meta.json"), "w"), indent=1)
print("kept", dst)
