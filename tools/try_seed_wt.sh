#!/bin/sh
# usage: tools/try_seed_wt.sh <worktree> <check id> [tier] : confirm the seeded change kept in <worktree>/_seed, then run
# the check against the worktree with the change applied (EFOOTPRINT_REPO), leaving /repo and evidence/ untouched
D=$1; P=$2; T=${3:-quick}
sh /verif/tools/confirm_seed.sh $D || exit 2
cd $D && git checkout -q --detach main && git apply _seed/patch.diff || exit 2
cd /verif; mkdir -p .work/ev_seed
EFOOTPRINT_REPO=$D VERIF_EVIDENCE_DIR=/verif/.work/ev_seed ./check $P --tier $T > .work/trywt_$(basename $D)_$P.log 2>&1; RC=$?
git -C $D checkout -q -- efootprint
echo "worktree=$D check=$P exit=$RC"; grep -E "signature|VIOLATION|^\[C|MACHINERY" .work/trywt_$(basename $D)_$P.log | head -12 | cut -c1-220
