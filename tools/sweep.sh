#!/bin/sh
# usage: tools/sweep.sh <VERIF_SEED> [tier] [ids...] : run every check on the unchanged tree with another seed offset
SEED=$1; TIER=${2:-quick}; shift; shift
IDS=${@:-C01 C02 C03 C04 C05 C06 C07 C08 C09 C10 C11 C12 C13 C14 C15 C16 C17 C18 C19 C20}
cd "$(dirname "$0")/.."; mkdir -p .work/sweep
for P in $IDS; do
  S=$(date +%s)
  VERIF_EVIDENCE_DIR=${SWEEP_EVIDENCE:-$PWD/evidence} VERIF_SEED=$SEED ./check $P --tier $TIER > .work/sweep/${P}_${SEED}_${TIER}.log 2>&1; RC=$?
  echo "$P seed=$SEED tier=$TIER exit=$RC wall=$(( $(date +%s) - S ))s $(grep -c '^VIOLATION' .work/sweep/${P}_${SEED}_${TIER}.log) violations"
done
