#!/bin/sh
# usage: tools/confirm_seed.sh <worktree dir> -> confirms (baseline passes with the change; demo fails with, passes without)
D=$1
cd $D || exit 2
git checkout -q -- efootprint; git checkout -q --detach main
git apply _seed/patch.diff || exit 2
/venv/bin/python /tmp/seedtools/baseline.py $D > _seed/confirm_baseline.log 2>&1; B=$?
PYTHONPATH=$D timeout 900 /venv/bin/python _seed/demo.py > _seed/confirm_demo_with.log 2>&1; W=$?
git checkout -q -- efootprint; git checkout -q --detach main
PYTHONPATH=$D timeout 900 /venv/bin/python _seed/demo.py > _seed/confirm_demo_without.log 2>&1; WO=$?
echo "baseline_with_change_exit=$B demo_with_change_exit=$W demo_without_change_exit=$WO"
tail -1 _seed/confirm_baseline.log
