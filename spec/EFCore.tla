------------------------------- MODULE EFCore -------------------------------
(***************************************************************************)
(* Structural model of e-footprint's object graph, of what every update    *)
(* function READS, and of the recomputation-chain algorithm of             *)
(* ModelingUpdate (modeling_update.py, modeling_object.py,                 *)
(* explainable_object_base_class.py).  Values are abstracted away: the     *)
(* model only tracks WHICH value was computed from WHICH, so "stale" means *)
(* "computed from something that has changed since".                       *)
(*                                                                         *)
(* A topology T is a record                                                *)
(*   ups, ujs, steps, jobs, servers, storages, nets, countries, devices    *)
(*        : sets of object ids                                             *)
(*   uj, net, country : [ups -> id]     devs : [ups -> Seq(devices)]       *)
(*   stepsOf : [ujs -> Seq(steps)]      jobsOf : [steps -> Seq(jobs)]      *)
(*   server  : [jobs -> servers]        storage : [servers -> storages]    *)
(*   sysups  : Seq(ups)            (every usage pattern is in the system)  *)
(* A slot is <<object, attribute, key>>, key = "-" except for the entries  *)
(* of per-usage-pattern dictionaries (key = usage pattern) and the pseudo  *)
(* slot "#" that stands for the key set of such a dictionary.              *)
(***************************************************************************)
EXTENDS EFPyList

NoKey == "-"
KeysKey == "#"
SYS == "sys"

Count(s, x) == Cardinality({i \in DOMAIN s : s[i] = x})
Max(S) == CHOOSE x \in S : \A y \in S : y <= x

(*************************** derived look-ups ******************************)
StepsOfUJ(T, uj)   == SeqSet(T.stepsOf[uj])
JobsOfStep(T, s)   == SeqSet(T.jobsOf[s])
JobsOfUJ(T, uj)    == UNION {JobsOfStep(T, s) : s \in StepsOfUJ(T, uj)}
UJsOfStep(T, s)    == {uj \in T.ujs : s \in StepsOfUJ(T, uj)}
UPsOfUJ(T, uj)     == {up \in T.ups : T.uj[up] = uj}
UPsOfStep(T, s)    == UNION {UPsOfUJ(T, uj) : uj \in UJsOfStep(T, s)}
StepsOfJob(T, j)   == {s \in T.steps : j \in JobsOfStep(T, s)}
UPsOfJob(T, j)     == UNION {UPsOfStep(T, s) : s \in StepsOfJob(T, j)}
NetsOf(T, U)       == {T.net[up] : up \in U}
UPsOfNet(T, n)     == {up \in T.ups : T.net[up] = n}
UPsOfCountry(T, c) == {up \in T.ups : T.country[up] = c}
UPsOfDevice(T, d)  == {up \in T.ups : d \in SeqSet(T.devs[up])}
JobsOfServer(T, v) == {j \in T.jobs : T.server[j] = v}
ServersOfStorage(T, t) == {v \in T.servers : T.storage[v] = t}
JobsOfStorage(T, t) == UNION {JobsOfServer(T, v) : v \in ServersOfStorage(T, t)}
SysUPs(T)          == SeqSet(T.sysups)
SysJobs(T)         == UNION {JobsOfUJ(T, T.uj[up]) : up \in SysUPs(T)}
SysServers(T)      == {T.server[j] : j \in SysJobs(T)}
SysStorages(T)     == {T.storage[v] : v \in SysServers(T)}
SysNets(T)         == NetsOf(T, SysUPs(T))

AllObjs(T) == T.ups \cup T.ujs \cup T.steps \cup T.jobs \cup T.servers \cup T.storages
              \cup T.nets \cup T.countries \cup T.devices \cup {SYS}

(* objects reachable from the system through forward links *)
Reachable(T) ==
    LET ups == SysUPs(T)
        ujs == {T.uj[up] : up \in ups}
        sts == UNION {StepsOfUJ(T, uj) : uj \in ujs}
        jbs == UNION {JobsOfStep(T, s) : s \in sts}
        svs == {T.server[j] : j \in jbs}
    IN  {SYS} \cup ups \cup ujs \cup sts \cup jbs \cup svs \cup {T.storage[v] : v \in svs}
        \cup NetsOf(T, ups) \cup {T.country[up] : up \in ups}
        \cup UNION {SeqSet(T.devs[up]) : up \in ups}

(* obj.systems non-empty, derived from the containers exactly as the classes do *)
HasSystem(T, o) ==
    LET inSys(U) == U \cap SysUPs(T) # {} IN
    \/ o = SYS
    \/ o \in T.ups /\ o \in SysUPs(T)
    \/ o \in T.ujs /\ inSys(UPsOfUJ(T, o))
    \/ o \in T.steps /\ inSys(UPsOfStep(T, o))
    \/ o \in T.jobs /\ inSys(UPsOfJob(T, o))
    \/ o \in T.servers /\ \E j \in JobsOfServer(T, o) : inSys(UPsOfJob(T, j))
    \/ o \in T.storages /\ \E j \in JobsOfStorage(T, o) : inSys(UPsOfJob(T, j))
    \/ o \in T.nets /\ inSys(UPsOfNet(T, o))
    \/ o \in T.countries /\ inSys(UPsOfCountry(T, o))
    \/ o \in T.devices /\ inSys(UPsOfDevice(T, o))

(************************ attributes, in declared order ********************)
UJAttrs  == <<"duration">>
UPAttrs  == <<"utc_hourly_usage_journey_starts", "nb_usage_journeys_in_parallel", "devices_energy",
              "devices_energy_footprint", "devices_fabrication_footprint", "energy_footprint",
              "instances_fabrication_footprint">>
JobDictAttrs == <<"hourly_occurrences_per_usage_pattern", "hourly_avg_occurrences_per_usage_pattern",
                  "hourly_data_transferred_per_usage_pattern", "hourly_data_stored_per_usage_pattern">>
JobAcrossAttrs == <<"hourly_occurrences_across_usage_patterns", "hourly_avg_occurrences_across_usage_patterns",
                    "hourly_data_transferred_across_usage_patterns", "hourly_data_stored_across_usage_patterns">>
JobAttrs == JobDictAttrs \o JobAcrossAttrs
NetAttrs == <<"energy_footprint">>
ServerAttrs == <<"hour_by_hour_ram_need", "hour_by_hour_compute_need", "occupied_ram_per_instance",
                 "occupied_compute_per_instance", "available_ram_per_instance", "available_compute_per_instance",
                 "raw_nb_of_instances", "nb_of_instances", "instances_fabrication_footprint",
                 "instances_energy", "energy_footprint">>
StorageAttrs == <<"carbon_footprint_fabrication", "power", "storage_delta", "full_cumulative_storage_need",
                  "raw_nb_of_instances", "nb_of_instances", "nb_of_active_instances",
                  "instances_fabrication_footprint", "instances_energy", "energy_footprint">>
SysAttrs == <<"total_footprint">>

(* CANONICAL_COMPUTATION_ORDER of core/all_classes_in_order.py (Service omitted: no services here) *)
ClassRank(T, o) ==
    CASE o \in T.steps     -> 1
      [] o \in T.ujs       -> 2
      [] o \in T.devices   -> 3
      [] o \in T.countries -> 4
      [] o \in T.ups       -> 5
      [] o \in T.jobs      -> 7
      [] o \in T.nets      -> 8
      [] o \in T.servers   -> 9
      [] o \in T.storages  -> 10
      [] o = SYS           -> 11

CalcAttrsOf(T, o) ==
    CASE o \in T.ujs      -> UJAttrs
      [] o \in T.ups      -> UPAttrs
      [] o \in T.jobs     -> JobAttrs
      [] o \in T.nets     -> NetAttrs
      [] o \in T.servers  -> ServerAttrs
      [] o \in T.storages -> StorageAttrs
      [] o = SYS          -> SysAttrs
      [] OTHER            -> <<>>

IsDictAttr(a) == a \in SeqSet(JobDictAttrs)
AttrIndex(T, o, a) == CHOOSE i \in DOMAIN CalcAttrsOf(T, o) : CalcAttrsOf(T, o)[i] = a

(* the slots an (object, calculated attribute) item stands for in topology T *)
SlotsOfItem(T, o, a) ==
    IF o \in T.jobs /\ IsDictAttr(a)
    THEN {<<o, a, up>> : up \in UPsOfJob(T, o)} \cup {<<o, a, KeysKey>>}
    ELSE {<<o, a, NoKey>>}

CalcSlots(T) ==
    UNION {UNION {SlotsOfItem(T, o, CalcAttrsOf(T, o)[i]) : i \in DOMAIN CalcAttrsOf(T, o)} : o \in AllObjs(T)}

S(o, a) == <<o, a, NoKey>>

(****************************** what is read *******************************)
(* Reads(T, s): the value slots (inputs and calculated) the update function *)
(* of s evaluates.  Def(T, s): the part of the topology that shapes the     *)
(* formula of s (which objects, in which order/multiplicity).  A slot is    *)
(* directly affected by an edit iff Def changes or a read input changes.    *)
LastIdx(T, uj, j) ==
    LET I == {i \in DOMAIN T.stepsOf[uj] : j \in JobsOfStep(T, T.stepsOf[uj][i])}
    IN  IF I = {} THEN 0 ELSE Max(I)

JobSlotBase(a) ==
    CASE a = "hourly_occurrences_per_usage_pattern" \/ a = "hourly_occurrences_across_usage_patterns" -> "occ"
      [] a = "hourly_avg_occurrences_per_usage_pattern" \/ a = "hourly_avg_occurrences_across_usage_patterns" -> "avg"
      [] a = "hourly_data_transferred_per_usage_pattern" \/ a = "hourly_data_transferred_across_usage_patterns" -> "dt"
      [] OTHER -> "ds"
DictOfAcross(a) ==
    CASE a = "hourly_occurrences_across_usage_patterns" -> "hourly_occurrences_per_usage_pattern"
      [] a = "hourly_avg_occurrences_across_usage_patterns" -> "hourly_avg_occurrences_per_usage_pattern"
      [] a = "hourly_data_transferred_across_usage_patterns" -> "hourly_data_transferred_per_usage_pattern"
      [] OTHER -> "hourly_data_stored_per_usage_pattern"

ReadsJob(T, j, a, k) ==
    IF k = KeysKey THEN {}
    ELSE IF k # NoKey THEN
        LET uj == T.uj[k]
            occ == <<j, "hourly_occurrences_per_usage_pattern", k>>
        IN CASE JobSlotBase(a) = "occ" ->
                  {S(k, "utc_hourly_usage_journey_starts")}
                  \cup {S(T.stepsOf[uj][i], "user_time_spent") : i \in 1..(LastIdx(T, uj, j) - 1)}
             [] JobSlotBase(a) = "avg" -> {occ, S(j, "request_duration")}
             [] JobSlotBase(a) = "dt"  -> {occ, S(j, "data_transferred"), S(j, "request_duration")}
             [] OTHER                  -> {occ, S(j, "data_stored"), S(j, "request_duration")}
    ELSE {<<j, DictOfAcross(a), up>> : up \in UPsOfJob(T, j)}

DefJob(T, j, a, k) ==
    IF k = KeysKey \/ k = NoKey THEN <<UPsOfJob(T, j)>>
    ELSE LET uj == T.uj[k] IN
         IF JobSlotBase(a) = "occ"
         THEN <<uj, [i \in 1..LastIdx(T, uj, j) |->
                        <<T.stepsOf[uj][i], Count(T.jobsOf[T.stepsOf[uj][i]], j)>>]>>
         ELSE <<>>

ReadsUP(T, up, a) ==
    LET c == T.country[up]
        D == SeqSet(T.devs[up])
        par == S(up, "nb_usage_journeys_in_parallel")
    IN CASE a = "utc_hourly_usage_journey_starts" -> {S(up, "hourly_usage_journey_starts"), S(c, "timezone")}
         [] a = "nb_usage_journeys_in_parallel" -> {S(up, "utc_hourly_usage_journey_starts"), S(T.uj[up], "duration")}
         [] a = "devices_energy" -> {par} \cup {S(d, "power") : d \in D}
         [] a = "devices_energy_footprint" -> {S(up, "devices_energy"), S(c, "average_carbon_intensity")}
         [] a = "devices_fabrication_footprint" ->
               {par} \cup UNION {{S(d, "carbon_footprint_fabrication"), S(d, "lifespan"),
                                  S(d, "fraction_of_usage_time")} : d \in D}
         [] a = "energy_footprint" -> {S(up, "devices_energy_footprint")}
         [] OTHER -> {S(up, "devices_fabrication_footprint")}

DefUP(T, up, a) ==
    CASE a = "utc_hourly_usage_journey_starts" \/ a = "devices_energy_footprint" -> <<T.country[up]>>
      [] a = "nb_usage_journeys_in_parallel" -> <<T.uj[up]>>
      [] a = "devices_energy" \/ a = "devices_fabrication_footprint" -> T.devs[up]
      [] OTHER -> <<>>

ReadsServer(T, v, a) ==
    LET J == JobsOfServer(T, v) IN
    CASE a = "hour_by_hour_ram_need" ->
           UNION {{S(j, "hourly_avg_occurrences_across_usage_patterns"), S(j, "ram_needed")} : j \in J}
      [] a = "hour_by_hour_compute_need" ->
           UNION {{S(j, "hourly_avg_occurrences_across_usage_patterns"), S(j, "compute_needed")} : j \in J}
      [] a = "occupied_ram_per_instance" -> {S(v, "base_ram_consumption")}
      [] a = "occupied_compute_per_instance" -> {S(v, "base_compute_consumption")}
      [] a = "available_ram_per_instance" ->
           {S(v, "ram"), S(v, "server_utilization_rate"), S(v, "occupied_ram_per_instance")}
      [] a = "available_compute_per_instance" ->
           {S(v, "compute"), S(v, "server_utilization_rate"), S(v, "occupied_compute_per_instance")}
      [] a = "raw_nb_of_instances" ->
           {S(v, "hour_by_hour_ram_need"), S(v, "available_ram_per_instance"),
            S(v, "hour_by_hour_compute_need"), S(v, "available_compute_per_instance")}
      [] a = "nb_of_instances" -> {S(v, "raw_nb_of_instances"), S(v, "server_type"), S(v, "fixed_nb_of_instances")}
      [] a = "instances_fabrication_footprint" ->
           {S(v, "carbon_footprint_fabrication"), S(v, "nb_of_instances"), S(v, "lifespan")}
      [] a = "instances_energy" ->
           {S(v, "idle_power"), S(v, "power"), S(v, "power_usage_effectiveness"), S(v, "nb_of_instances"),
            S(v, "raw_nb_of_instances")}
      [] OTHER -> {S(v, "instances_energy"), S(v, "average_carbon_intensity")}

DefServer(T, v, a) ==
    IF a = "hour_by_hour_ram_need" \/ a = "hour_by_hour_compute_need" THEN <<JobsOfServer(T, v)>> ELSE <<>>

ReadsStorage(T, t, a) ==
    LET J == JobsOfStorage(T, t)
        V == ServersOfStorage(T, t)
        \* the sign of job.data_stored is read too, but it only matters when the job stores data at some
        \* hour, and then hourly_data_stored_across_usage_patterns depends on data_stored anyway
        jobreads == {S(j, "hourly_data_stored_across_usage_patterns") : j \in J}
    IN
    CASE a = "carbon_footprint_fabrication" ->
           {S(t, "carbon_footprint_fabrication_per_storage_capacity"), S(t, "storage_capacity")}
      [] a = "power" -> {S(t, "power_per_storage_capacity"), S(t, "storage_capacity")}
      [] a = "storage_delta" -> jobreads \cup {S(t, "data_replication_factor"), S(t, "data_storage_duration")}
      [] a = "full_cumulative_storage_need" -> {S(t, "storage_delta"), S(t, "base_storage_need")}
      [] a = "raw_nb_of_instances" -> {S(t, "full_cumulative_storage_need"), S(t, "storage_capacity")}
      [] a = "nb_of_instances" -> {S(t, "raw_nb_of_instances"), S(t, "fixed_nb_of_instances")}
      [] a = "nb_of_active_instances" ->
           jobreads \cup {S(t, "data_replication_factor"), S(t, "data_storage_duration"), S(t, "storage_capacity"),
                          S(t, "nb_of_instances")}
      [] a = "instances_fabrication_footprint" ->
           {S(t, "carbon_footprint_fabrication"), S(t, "nb_of_instances"), S(t, "lifespan")}
      [] a = "instances_energy" ->
           {S(t, "nb_of_instances"), S(t, "nb_of_active_instances"), S(t, "power"), S(t, "idle_power")}
           \cup {S(v, "power_usage_effectiveness") : v \in V}
      [] OTHER -> {S(t, "instances_energy")} \cup {S(v, "average_carbon_intensity") : v \in V}

DefStorage(T, t, a) ==
    CASE a = "storage_delta" \/ a = "nb_of_active_instances" -> <<JobsOfStorage(T, t)>>
      [] a = "instances_energy" \/ a = "energy_footprint" -> <<ServersOfStorage(T, t)>>
      [] OTHER -> <<>>

(* a usage pattern whose journey has no job contributes nothing to its network *)
NetUPs(T, n) == {up \in UPsOfNet(T, n) : JobsOfUJ(T, T.uj[up]) # {}}
NetPairs(T, n) == UNION {{<<up, j>> : j \in JobsOfUJ(T, T.uj[up])} : up \in NetUPs(T, n)}

(* a network none of whose usage patterns has a job is never computed: it stays empty whatever its inputs *)
ReadsNet(T, n) ==
    IF NetPairs(T, n) = {} THEN {} ELSE
    {S(n, "bandwidth_energy_intensity")}
    \cup {<<p[2], "hourly_data_transferred_per_usage_pattern", p[1]>> : p \in NetPairs(T, n)}
    \cup {S(T.country[up], "average_carbon_intensity") : up \in NetUPs(T, n)}
DefNet(T, n) == <<NetPairs(T, n), {<<up, T.country[up]>> : up \in NetUPs(T, n)}>>

ReadsSys(T) ==
    UNION {{S(v, "instances_fabrication_footprint"), S(v, "energy_footprint")} : v \in SysServers(T)}
    \cup UNION {{S(t, "instances_fabrication_footprint"), S(t, "energy_footprint")} : t \in SysStorages(T)}
    \cup {S(n, "energy_footprint") : n \in SysNets(T)}
    \cup UNION {{S(up, "instances_fabrication_footprint"), S(up, "energy_footprint")} : up \in SysUPs(T)}
DefSys(T) == <<SysServers(T), SysStorages(T), SysNets(T), SysUPs(T)>>

Reads(T, s) ==
    LET o == s[1]  a == s[2]  k == s[3] IN
    CASE o \in T.ujs      -> {S(st, "user_time_spent") : st \in StepsOfUJ(T, o)}
      [] o \in T.ups      -> ReadsUP(T, o, a)
      [] o \in T.jobs     -> ReadsJob(T, o, a, k)
      [] o \in T.nets     -> ReadsNet(T, o)
      [] o \in T.servers  -> ReadsServer(T, o, a)
      [] o \in T.storages -> ReadsStorage(T, o, a)
      [] o = SYS          -> ReadsSys(T)

Def(T, s) ==
    LET o == s[1]  a == s[2]  k == s[3] IN
    CASE o \in T.ujs      -> T.stepsOf[o]
      [] o \in T.ups      -> DefUP(T, o, a)
      [] o \in T.jobs     -> DefJob(T, o, a, k)
      [] o \in T.nets     -> DefNet(T, o)
      [] o \in T.servers  -> DefServer(T, o, a)
      [] o \in T.storages -> DefStorage(T, o, a)
      [] o = SYS          -> DefSys(T)

(* all of it, computed once per topology *)
ReadsMap(T) == [s \in CalcSlots(T) |-> Reads(T, s)]
DefMap(T)   == [s \in CalcSlots(T) |-> Def(T, s)]

(************************** what an edit truly affects *********************)
RECURSIVE GrowAffected(_, _)
GrowAffected(R, A) ==
    LET N == A \cup {s \in DOMAIN R : R[s] \cap A # {}}
    IN  IF N = A THEN A ELSE GrowAffected(R, N)

(* T, T2: topology before/after; CI: set of changed input slots *)
TrueAffected(T, T2, CI) ==
    LET R2 == ReadsMap(T2)
        D1 == DefMap(T)
        D2 == DefMap(T2)
        direct == {s \in DOMAIN R2 : \/ s \notin DOMAIN D1
                                     \/ D1[s] # D2[s]
                                     \/ R2[s] \cap CI # {}}
    IN  GrowAffected(R2, direct)

(* slots whose value a user can observe (directly or through what reads them) *)
RECURSIVE GrowNeeded(_, _)
GrowNeeded(R, N) ==
    LET M == N \cup (UNION {R[s] : s \in N} \cap DOMAIN R)
    IN  IF M = N THEN N ELSE GrowNeeded(R, M)
Relevant(T) ==
    LET R == ReadsMap(T) IN GrowNeeded(R, {s \in DOMAIN R : s[1] \in Reachable(T)})

(********************** object-level recomputation chain *******************)
(* modeling_objects_whose_attributes_depend_directly_on_me, per class.      *)
(* JourneyFeedsNetworks: UsageJourney lists the networks of its usage       *)
(* patterns (the repaired behaviour); FALSE reproduces the pinned defect.   *)
DependsOnMe(T, o, JourneyFeedsNetworks) ==
    CASE o \in T.steps     -> JobsOfStep(T, o) \cup NetsOf(T, UPsOfStep(T, o))
      [] o \in T.ujs       -> IF UPsOfUJ(T, o) # {}
                              THEN UPsOfUJ(T, o) \cup (IF JourneyFeedsNetworks THEN NetsOf(T, UPsOfUJ(T, o)) ELSE {})
                              ELSE JobsOfUJ(T, o)
      [] o \in T.devices   -> UPsOfDevice(T, o)
      [] o \in T.countries -> UPsOfCountry(T, o)
      [] o \in T.ups       -> JobsOfUJ(T, T.uj[o])
      [] o \in T.jobs      -> {T.server[o]} \cup NetsOf(T, UPsOfJob(T, o))
      [] o \in T.servers   -> {T.storage[o]}
      [] o = SYS           -> SysUPs(T)
      [] OTHER             -> {}

RECURSIVE ObjClosure(_, _, _)
ObjClosure(T, X, jfn) ==
    LET N == X \cup UNION {DependsOnMe(T, o, jfn) : o \in X}
    IN  IF N = X THEN X ELSE ObjClosure(T, N, jfn)

(* A change is [kind |-> "input", slot |-> s]                                 *)
(*          or [kind |-> "link", obj, old, new]                               *)
(*          or [kind |-> "list", obj, old, new]  (old/new: sequences)         *)
ObjChainOfChange(T, ch, jfn) ==
    \* since the repair for links held by objects whose own values depend on the linked object (a service job and its
    \* service's server), the object holding the link is recomputed too, as for a list
    CASE ch.kind = "link" -> ObjClosure(T, {ch.new, ch.old, ch.obj}, jfn)
      [] ch.kind = "list" ->
           LET removed == SeqSet(ch.old) \ SeqSet(ch.new)
               added   == SeqSet(ch.new) \ SeqSet(ch.old)
               roots   == {e \in removed \cup added : ch.obj \notin DependsOnMe(T, e, jfn)}
           IN  ObjClosure(T, roots \cup {ch.obj}, jfn)
      [] OTHER -> {}

ObjChain(T, changes, jfn) ==
    LET base == UNION {ObjChainOfChange(T, changes[i], jfn) : i \in DOMAIN changes}
    IN  IF \E o \in base : HasSystem(T, o) THEN base \cup {SYS} ELSE base

(* position of an (object, attribute) item in the object part of the chain:  *)
(* canonical class order, then declared attribute order                      *)
ObjPartPos(T, o, a) == ClassRank(T, o) * 100 + AttrIndex(T, o, a)
ObjPartItems(T, objs) ==
    UNION {{<<o, CalcAttrsOf(T, o)[i]>> : i \in DOMAIN CalcAttrsOf(T, o)} : o \in objs}

(********************** value-level recomputation chain ********************)
(* children in the recorded calculation graph of the PRE-change topology.   *)
(* RecordsAll = TRUE: the graph records exactly what is read (the repaired  *)
(* behaviour).                                                              *)
(* Recomputing a dictionary attribute replaces all its entries: what reads any entry is impacted as soon as  *)
(* one entry is (ExplainableObject.values_replaced_together_with_me).                                       *)
SiblingClosure == TRUE      \* a configuration may override it with FALSE to obtain the behaviour before repair 4d00801
SiblingEntries(R, X) == IF SiblingClosure THEN {s \in DOMAIN R : \E x \in X : x[3] # NoKey /\ s[1] = x[1] /\ s[2] = x[2]} ELSE {}
RECURSIVE Descend(_, _)
Descend(R, X) ==
    LET N == X \cup {s \in DOMAIN R : R[s] \cap X # {}} \cup SiblingEntries(R, X)
    IN  IF N = X THEN X ELSE Descend(R, N)

(* longest-path depth of every descendant, by rounds *)
RECURSIVE Levels(_, _, _, _)
Levels(R, D, lev, n) ==
    \* lev: function on the subset of D already placed
    LET ready == {s \in D \ DOMAIN lev : (R[s] \cap D) \subseteq DOMAIN lev}
    IN  IF ready = {} THEN lev
        ELSE Levels(R, D, [s \in DOMAIN lev \cup ready |-> IF s \in DOMAIN lev THEN lev[s] ELSE n], n + 1)

ItemOf(s) == <<s[1], s[2]>>

(* positions (level) of the items of the value-level chain started at input slot x *)
ValueChainLevels(T, R, x) ==
    LET D == Descend(R, {x}) \ {x}
        lev == Levels(R, D, [s \in {} |-> 0], 1)
        items == {ItemOf(s) : s \in D}
    IN  [it \in items |-> Max({lev[s] : s \in {q \in D : ItemOf(q) = it}})]

(*************************** the merged chain ******************************)
(* Final position of every item = position of its LAST occurrence in        *)
(*   object part ++ value chain of 1st changed input ++ value chain of 2nd… *)
(* (optimize_attr_updates_chain keeps the last occurrence of each id).      *)
(* Canonical = TRUE models the repaired merge: when more than one chain is  *)
(* merged (object part + a value chain, or several value chains) the merged *)
(* chain is re-sorted in canonical order.                                   *)
ChainPositions(T, changes, jfn, Canonical) ==
    LET R == ReadsMap(T)
        objs == ObjChain(T, changes, jfn)
        objItems == ObjPartItems(T, objs)
        inputIdx == {i \in DOMAIN changes : changes[i].kind = "input"}
        vlev == [i \in inputIdx |-> ValueChainLevels(T, R, changes[i].slot)]
        allItems == objItems \cup UNION {DOMAIN vlev[i] : i \in inputIdx}
        lastPart(it) == IF \E i \in inputIdx : it \in DOMAIN vlev[i]
                        THEN Max({i \in inputIdx : it \in DOMAIN vlev[i]}) ELSE 0
        pos(it) == IF Canonical /\ ((objs # {} /\ inputIdx # {}) \/ Cardinality(inputIdx) >= 2)
                   THEN ObjPartPos(T, it[1], it[2])
                   ELSE IF lastPart(it) = 0 THEN ObjPartPos(T, it[1], it[2])
                        ELSE lastPart(it) * 10000 + vlev[lastPart(it)][it]
    IN  [it \in allItems |-> pos(it)]

(************************* simulated recomputation *************************)
(* Recomputing an item refreshes each of its slots (in the post-change      *)
(* topology) iff everything that slot reads is fresh at that moment.        *)
RecomputeItems(T2, R2, stale, items) ==
    LET slots == UNION {SlotsOfItem(T2, it[1], it[2]) : it \in items} \cap DOMAIN R2
        nowStale == {s \in slots : R2[s] \cap stale # {}}
    IN  (stale \ slots) \cup nowStale

RECURSIVE RunChain(_, _, _, _, _)
RunChain(T2, R2, stale, pos, todo) ==
    \* todo: set of positions still to process
    IF todo = {} THEN stale
    ELSE LET p == CHOOSE x \in todo : \A y \in todo : x <= y
             items == {it \in DOMAIN pos : pos[it] = p /\ it[1] \in AllObjs(T2)}
         IN  RunChain(T2, R2, RecomputeItems(T2, R2, stale, items), pos, todo \ {p})

RECURSIVE RunSeq(_, _, _, _, _)
RunSeq(T2, R2, stale, seq, i) ==
    IF i > Len(seq) THEN stale
    ELSE RunSeq(T2, R2, RecomputeItems(T2, R2, stale, {seq[i]}), seq, i + 1)

(* stale slots after an update, given the stale set before it *)
StaleAfter(T, T2, changes, staleBefore, jfn, Canonical) ==
    LET CI == {changes[i].slot : i \in {k \in DOMAIN changes : changes[k].kind = "input"}}
        R2 == ReadsMap(T2)
        A == TrueAffected(T, T2, CI)
        pos == ChainPositions(T, changes, jfn, Canonical)
        start == A \cup (staleBefore \cap DOMAIN R2)
    IN  RunChain(T2, R2, start, pos, {pos[it] : it \in DOMAIN pos})

(* ---- the recorded graph after an update -------------------------------------------------------------------- *)
(* NoStale alone does not carry an induction over histories: a slot can be numerically fresh while the value object  *)
(* it holds still lists a SUPERSEDED value object among its ancestors (its parent was recomputed -- a new object --   *)
(* and it was not).  Such a slot is out of reach of the next update.  "dirty" = slots whose recorded ancestors        *)
(* contain a superseded object: a slot becomes dirty when something it reads is replaced (a changed input, a          *)
(* recomputed item -- ALL entries of a recomputed dictionary are new objects) and clean when it is itself recomputed. *)
(* SIB = FALSE models the behaviour before repair 4d00801 (only the children of the entries that depend on the        *)
(* changed input were recomputed).                                                                                    *)
RecomputeTok(T2, R2, dirty, items) ==
    LET slots == UNION {SlotsOfItem(T2, it[1], it[2]) : it \in items} \cap DOMAIN R2
    IN  (dirty \ slots) \cup {s \in DOMAIN R2 \ slots : R2[s] \cap slots # {}}
RECURSIVE RunChainTok(_, _, _, _, _)
RunChainTok(T2, R2, dirty, pos, todo) ==
    IF todo = {} THEN dirty
    ELSE LET p == CHOOSE x \in todo : \A y \in todo : x <= y
             items == {it \in DOMAIN pos : pos[it] = p /\ it[1] \in AllObjs(T2)}
         IN  RunChainTok(T2, R2, RecomputeTok(T2, R2, dirty, items), pos, todo \ {p})
DirtyAfter(T, T2, changes, jfn, Canonical) ==
    LET CI == {changes[i].slot : i \in {k \in DOMAIN changes : changes[k].kind = "input"}}
        R == ReadsMap(T)
        R2 == ReadsMap(T2)
        pos == ChainPositions(T, changes, jfn, Canonical)
        start == {s \in DOMAIN R2 : R2[s] \cap CI # {}} \cup {s \in DOMAIN R2 \cap DOMAIN R : R2[s] # R[s]}
                 \cup (DOMAIN R2 \ DOMAIN R)
    IN  RunChainTok(T2, R2, start, pos, {pos[it] : it \in DOMAIN pos})

(* same, but following a chain observed in the implementation *)
StaleAfterObserved(T, T2, changes, staleBefore, seq) ==
    LET CI == {changes[i].slot : i \in {k \in DOMAIN changes : changes[k].kind = "input"}}
        R2 == ReadsMap(T2)
        A == TrueAffected(T, T2, CI)
    IN  RunSeq(T2, R2, A \cup (staleBefore \cap DOMAIN R2), seq, 1)

(* A chain is well ordered iff every item appears once and after every item it reads *)
ChainWellOrdered(T2, seq) ==
    LET R2 == ReadsMap(T2)
        idx(it) == CHOOSE i \in DOMAIN seq : seq[i] = it
        inChain == SeqSet(seq)
    IN  /\ \A i, j \in DOMAIN seq : i # j => seq[i] # seq[j]
        /\ \A it \in inChain : it[1] \in AllObjs(T2) =>
             \A s \in SlotsOfItem(T2, it[1], it[2]) \cap DOMAIN R2 :
               \A r \in R2[s] : ItemOf(r) \in inChain /\ ItemOf(r) # it => idx(ItemOf(r)) < idx(it)

(****************************** system creation *****************************)
(* System.after_init: breadth-first walk of "depends directly on me" from the system (an object already     *)
(* pending is not queued twice, but may be computed several times), each object computing its attributes in *)
(* declared order, then the system itself.  Journey durations are computed when the journey is created.     *)
SetToSeq(X) == CHOOSE f \in [1..Cardinality(X) -> X] : \A a, b \in 1..Cardinality(X) : a # b => f[a] # f[b]
RECURSIVE Flatten(_, _)
Flatten(seqs, k) == IF k > Len(seqs) THEN <<>> ELSE seqs[k] \o Flatten(seqs, k + 1)
DepSeq(T, o, jfn) ==
    CASE o \in T.steps     -> T.jobsOf[o] \o SetToSeq(NetsOf(T, UPsOfStep(T, o)))
      [] o \in T.ujs       -> IF UPsOfUJ(T, o) # {}
                              THEN SetToSeq(UPsOfUJ(T, o)) \o (IF jfn THEN SetToSeq(NetsOf(T, UPsOfUJ(T, o))) ELSE <<>>)
                              ELSE Flatten([k \in DOMAIN T.stepsOf[o] |-> T.jobsOf[T.stepsOf[o][k]]], 1)
      [] o \in T.devices   -> SetToSeq(UPsOfDevice(T, o))
      [] o \in T.countries -> SetToSeq(UPsOfCountry(T, o))
      [] o \in T.ups       -> Flatten([k \in DOMAIN T.stepsOf[T.uj[o]] |-> T.jobsOf[T.stepsOf[T.uj[o]][k]]], 1)
      [] o \in T.jobs      -> <<T.server[o]>> \o SetToSeq(NetsOf(T, UPsOfJob(T, o)))
      [] o \in T.servers   -> <<T.storage[o]>>
      [] o = SYS           -> T.sysups
      [] OTHER             -> <<>>
RECURSIVE QueueNew(_, _, _)
QueueNew(pending, deps, k) ==
    IF k > Len(deps) THEN pending
    ELSE QueueNew(IF deps[k] \in SeqSet(pending) THEN pending ELSE Append(pending, deps[k]), deps, k + 1)
RECURSIVE Bfs(_, _, _, _)
Bfs(T, pending, acc, jfn) ==
    IF pending = <<>> THEN acc
    ELSE Bfs(T, QueueNew(Tail(pending), DepSeq(T, Head(pending), jfn), 1), Append(acc, Head(pending)), jfn)
CreationOrder(T, jfn) == Append(Bfs(T, DepSeq(T, SYS, jfn), <<>>, jfn), SYS)

(* items computed when the objects of `order` compute their calculated attributes one after the other *)
ItemsOfOrder(T, order) == Flatten([k \in DOMAIN order |-> [n \in DOMAIN CalcAttrsOf(T, order[k]) |-> <<order[k], CalcAttrsOf(T, order[k])[n]>>]], 1)
(* Objects the walk does not reach keep their initial empty values; for a network none of whose usage       *)
(* patterns has a job and for a job that no usage pattern reaches, empty IS the right value.                 *)
NeverComputed(T) == {s \in CalcSlots(T) : /\ s[1] \notin T.ujs
                                          /\ ~(s[1] \in T.nets /\ NetPairs(T, s[1]) = {})
                                          /\ ~(s[1] \in T.jobs /\ UPsOfJob(T, s[1]) = {})}
StaleAfterOrder(T, order, staleBefore) == RunSeq(T, ReadsMap(T), staleBefore, ItemsOfOrder(T, order), 1)
StaleAfterCreation(T, jfn) == StaleAfterOrder(T, CreationOrder(T, jfn), NeverComputed(T)) \cap Relevant(T)

(***************************** applying changes ****************************)
ApplyOne(T, c) ==
    IF c.kind = "input" THEN T
    ELSE IF c.attr = "usage_journey" THEN [T EXCEPT !.uj[c.obj] = c.new]
    ELSE IF c.attr = "network" THEN [T EXCEPT !.net[c.obj] = c.new]
    ELSE IF c.attr = "country" THEN [T EXCEPT !.country[c.obj] = c.new]
    ELSE IF c.attr = "server" THEN [T EXCEPT !.server[c.obj] = c.new]
    ELSE IF c.attr = "uj_steps" THEN [T EXCEPT !.stepsOf[c.obj] = c.new]
    ELSE IF c.attr = "jobs" THEN [T EXCEPT !.jobsOf[c.obj] = c.new]
    ELSE IF c.attr = "devices" THEN [T EXCEPT !.devs[c.obj] = c.new]
    ELSE IF c.attr = "storage" THEN [T EXCEPT !.storage[c.obj] = c.new]
    ELSE IF c.attr = "usage_patterns" THEN [T EXCEPT !.sysups = c.new]
    ELSE Assert(FALSE, <<"unknown change", c>>)

RECURSIVE ApplyAll(_, _, _)
ApplyAll(T, cs, i) == IF i > Len(cs) THEN T ELSE ApplyAll(ApplyOne(T, cs[i]), cs, i + 1)

ListOf(T, o, a) ==
    CASE a = "uj_steps" -> T.stepsOf[o]
      [] a = "jobs" -> T.jobsOf[o]
      [] a = "devices" -> T.devs[o]
      [] a = "usage_patterns" -> T.sysups

(* the objects that hold a forward link to o *)
ContainersOf(T, o) ==
    {up \in T.ups : T.uj[up] = o \/ T.net[up] = o \/ T.country[up] = o \/ o \in SeqSet(T.devs[up])}
    \cup {uj \in T.ujs : o \in SeqSet(T.stepsOf[uj])}
    \cup {st \in T.steps : o \in SeqSet(T.jobsOf[st])}
    \cup {j \in T.jobs : T.server[j] = o}
    \cup {v \in T.servers : T.storage[v] = o}
    \cup (IF o \in SeqSet(T.sysups) THEN {SYS} ELSE {})

Restrict(f, X) == [x \in (DOMAIN f) \ X |-> f[x]]
(* self_delete of an unreferenced object: it disappears together with its forward links *)
RemoveObj(T, o) ==
    [T EXCEPT !.ups = @ \ {o}, !.ujs = @ \ {o}, !.steps = @ \ {o}, !.jobs = @ \ {o},
              !.uj = Restrict(@, {o}), !.net = Restrict(@, {o}), !.country = Restrict(@, {o}),
              !.devs = Restrict(@, {o}), !.stepsOf = Restrict(@, {o}), !.jobsOf = Restrict(@, {o}),
              !.server = Restrict(@, {o})]
=============================================================================
