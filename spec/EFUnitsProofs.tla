---------------------------- MODULE EFUnitsProofs ----------------------------
(* Unbounded counterparts (TLAPS) of the laws MC_Units checks with TLC over small quantities: for EVERY natural magnitude  *)
(* and EVERY positive unit factor, re-expressing an operand in another unit in which it is exactly expressible does not    *)
(* change its base value, hence not the result of any operator that only reads base values.                                 *)
EXTENDS EFUnits, TLAPS

Qty == [m : Nat, f : Nat \ {0}]

LEMMA DivExact == \A x \in Nat, g \in Nat \ {0} : x % g = 0 => (x \div g) * g = x
  OBVIOUS

THEOREM ReexpressionKeepsBase ==
    \A a \in Qty, g \in Nat \ {0} : Expressible(a, g) => Base(To(a, g)) = Base(a)
  BY DivExact DEF Qty, Expressible, To, Base, Q

THEOREM MaxAwareIsUnitSafe ==
    \A a \in Qty, b \in Qty, g \in Nat \ {0} :
        Expressible(a, g) => Base(MaxAware(To(a, g), b)) = Base(MaxAware(a, b))
  BY ReexpressionKeepsBase DEF MaxAware

LEMMA Regroup == \A k \in Nat, g \in Nat, p \in Nat, q \in Nat : (k * p) * (g * q) = (k * g) * (p * q)
  OBVIOUS

THEOREM MulIsUnitSafe ==
    \A a \in Qty, b \in Qty, g \in Nat \ {0} :
        Expressible(a, g) => Base(Mul(To(a, g), b)) = Base(Mul(a, b))
  <1> SUFFICES ASSUME NEW a \in Qty, NEW b \in Qty, NEW g \in Nat \ {0}, Expressible(a, g)
               PROVE Base(Mul(To(a, g), b)) = Base(Mul(a, b))
    OBVIOUS
  <1> DEFINE k == Base(a) \div g
  <1>1. a.m \in Nat /\ a.f \in Nat /\ b.m \in Nat /\ b.f \in Nat  BY DEF Qty
  <1>2. Base(a) \in Nat  BY <1>1 DEF Base
  <1>3. k \in Nat /\ k * g = Base(a)  BY <1>2, DivExact DEF Expressible
  <1>4. Base(Mul(To(a, g), b)) = (k * b.m) * (g * b.f)  BY DEF Base, Mul, To, Q
  <1>5. Base(Mul(a, b)) = (a.m * b.m) * (a.f * b.f)  BY DEF Base, Mul, Q
  <1>6. (k * b.m) * (g * b.f) = (k * g) * (b.m * b.f)  BY <1>1, <1>3, Regroup
  <1>7. (a.m * b.m) * (a.f * b.f) = (a.m * a.f) * (b.m * b.f)  BY <1>1, Regroup
  <1> QED BY <1>3, <1>4, <1>5, <1>6, <1>7 DEF Base

LEMMA MulMonotone == \A x \in Nat, y \in Nat, f \in Nat \ {0} : (x >= y) <=> (x * f >= y * f)
  <1> SUFFICES ASSUME NEW x \in Nat, NEW y \in Nat, NEW f \in Nat \ {0} PROVE (x >= y) <=> (x * f >= y * f)
    OBVIOUS
  <1>1. ASSUME x >= y PROVE x * f >= y * f
    <2>1. x * f = y * f + (x - y) * f  BY <1>1
    <2>2. (x - y) * f >= 0  BY <1>1
    <2> QED BY <2>1, <2>2
  <1>2. ASSUME ~(x >= y) PROVE ~(x * f >= y * f)
    <2>1. y * f = x * f + (y - x) * f  BY <1>2
    <2>2. (y - x) * f >= f  BY <1>2
    <2>3. x * f \in Int /\ y * f \in Int /\ (y - x) * f \in Int /\ f >= 1  OBVIOUS
    <2>4. y * f >= x * f + 1  BY <2>1, <2>2, <2>3
    <2> QED BY <2>3, <2>4
  <1> QED BY <1>1, <1>2

THEOREM MaxRawRightInSameUnit ==
    \A a \in Qty, b \in Qty : a.f = b.f => Base(MaxRaw(a, b)) = Base(MaxAware(a, b))
  <1> SUFFICES ASSUME NEW a \in Qty, NEW b \in Qty, a.f = b.f PROVE Base(MaxRaw(a, b)) = Base(MaxAware(a, b))
    OBVIOUS
  <1>1. a.m \in Nat /\ b.m \in Nat /\ a.f \in Nat \ {0}  BY DEF Qty
  <1>2. (a.m >= b.m) <=> (a.m * a.f >= b.m * a.f)  BY <1>1, MulMonotone
  <1> QED BY <1>1, <1>2 DEF MaxRaw, MaxAware, Base, Q
=============================================================================
