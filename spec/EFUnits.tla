-------------------------------- MODULE EFUnits --------------------------------
(***************************************************************************)
(* Why results cannot depend on the unit an input is written in (C10), and  *)
(* where they could.  A quantity is [m, f]: magnitude m in a unit worth f   *)
(* base units (same dimension throughout; f in {1, 10, 1000}).  The         *)
(* unit-aware operators of the implementation (pint) convert before they    *)
(* combine; two helpers read BARE magnitudes and are only correct under a   *)
(* precondition the callers must establish:                                 *)
(*   np_compared_with (element-wise max / min): both operands in the same   *)
(*   unit -- Storage converts storage_needed / storage_freed to TB first;   *)
(*   ceil / round: a dimensionless operand (number of instances).           *)
(***************************************************************************)
EXTENDS Integers, TLC

Base(v) == v.m * v.f
Q(m, f) == [m |-> m, f |-> f]
Expressible(v, f2) == Base(v) % f2 = 0
To(v, f2) == Q(Base(v) \div f2, f2)                       \* exact when Expressible
(* unit-aware: the right operand is converted to the left one's unit *)
Add(a, b) == Q(a.m + Base(b) \div a.f, a.f)               \* callers keep Base(b) a multiple of a.f
Mul(a, b) == Q(a.m * b.m, a.f * b.f)
MaxAware(a, b) == IF Base(a) >= Base(b) THEN a ELSE b
(* bare magnitudes, result labelled with the left operand's unit (np_compared_with) *)
MaxRaw(a, b) == Q(IF a.m >= b.m THEN a.m ELSE b.m, a.f)
(* ceil of the magnitude in the operand's own unit, to a multiple of `step` magnitudes (step = 1 is ceil) *)
CeilRaw(a, step) == Q(-((-a.m) \div step) * step, a.f)
=============================================================================
