----------------------------- MODULE Trace_Numeric -----------------------------
(***************************************************************************)
(* Numeric conformance: each event is one real system built (or edited)     *)
(* from lattice inputs; it carries the topology T, the lattice inputs I,    *)
(* whether building raised (and what), and every calculated hourly value    *)
(* of the real system as scaled integers.  TLC recomputes each value with   *)
(* EFNumeric and compares exactly, then evaluates the theorems of C02, C03, *)
(* C04 on the recomputed model (so that they are also checked on these      *)
(* larger, real inputs) and the observed values.                            *)
(***************************************************************************)
EXTENDS EFNumeric, Json

CONSTANTS TraceFile,
          Focus          \* set of observation kinds whose mismatch is reported ({} = all)

Events == ndJsonDeserialize(TraceFile)
N == Len(Events)
VARIABLES i
vars == <<i>>

Topo(j) ==
    [ups |-> SeqSet(j.ups), ujs |-> SeqSet(j.ujs), steps |-> SeqSet(j.steps), jobs |-> SeqSet(j.jobs),
     servers |-> SeqSet(j.servers), storages |-> SeqSet(j.storages), nets |-> SeqSet(j.nets),
     countries |-> SeqSet(j.countries), devices |-> SeqSet(j.devices),
     uj |-> j.uj, net |-> j.net, country |-> j.country, devs |-> j.devs,
     stepsOf |-> j.stepsOf, jobsOf |-> j.jobsOf, server |-> j.server, storage |-> j.storage,
     sysups |-> j.sysups]

Ser(o) == [h \in SeqSet(o.h) |-> o.v[CHOOSE k \in DOMAIN o.h : o.h[k] = h]]

Line(kind, e, clause, data) ==
    PrintT(kind \o "|" \o ToString(e.tid) \o "|" \o ToString(e.seq) \o "|" \o clause \o "|" \o ToString(data))
Fail(e, clause, data) == Line("FAIL", e, clause, data)

(* the observation of kind k for object o (and key u); EMPTY if there is none *)
ObsOf(e, k, o, u) ==
    LET X == {n \in DOMAIN e.obs : e.obs[n].k = k /\ e.obs[n].o = o /\ e.obs[n].u = u}
    IN  IF X = {} THEN EMPTY ELSE Ser(e.obs[CHOOSE n \in X : TRUE])

Expected(e, T, I, k, o, u) ==
    CASE k = "utc" -> UtcStarts(T, I, o)
      [] k = "par4" -> Par4(T, I, o)
      [] k = "dev_energy4" -> DevEnergy4(T, I, o)
      [] k = "dev_efp4" -> DevEnergyFp4(T, I, o)
      [] k = "dev_fab4" -> DevFab4(T, I, o)
      [] k = "occ" -> Occ(T, I, o, u)
      [] k = "avg4" -> Avg4(T, I, o, u)
      [] k = "dt" -> DataT(T, I, o, u)
      [] k = "ds" -> DataS(T, I, o, u)
      [] k = "occ_x" -> OccX(T, I, o)
      [] k = "avg4_x" -> Avg4X(T, I, o)
      [] k = "dt_x" -> DataTX(T, I, o)
      [] k = "ds_x" -> DataSX(T, I, o)
      [] k = "net_fp" -> NetFp(T, I, o)
      [] k = "ram_need4" -> RamNeed4(T, I, o)
      [] k = "cpu_need4" -> CpuNeed4(T, I, o)
      [] k = "raw480" -> Raw480(T, I, o)
      [] k = "nb480" -> ObsOf(e, "nb480", o, u)          \* judged by NbAcceptable
      [] k = "srv_fab480" -> SrvFab480N(I, o, ObsOf(e, "nb480", o, "-"))
      [] k = "srv_energy480" -> SrvEnergy480N(T, I, o, ObsOf(e, "nb480", o, "-"))
      [] k = "srv_efp480" -> SrvEnergyFp480N(T, I, o, ObsOf(e, "nb480", o, "-"))
      [] k = "sto_delta" -> StoDelta(T, I, o)
      [] k = "sto_cum" -> StoCumulative(T, I, o)
      [] k = "sto_nb" -> ObsOf(e, "sto_nb", o, u)        \* judged by StoNbAcceptable
      [] k = "sto_active_cap" -> StoActiveCapN(T, I, o, ObsOf(e, "sto_nb", o, "-"))
      [] k = "sto_fab" -> StoFabN(I, o, ObsOf(e, "sto_nb", o, "-"))
      [] k = "sto_energy_cap" -> StoEnergyCapN(T, I, o, ObsOf(e, "sto_nb", o, "-"))
      [] k = "sto_efp_cap" -> StoEnergyFpCapN(T, I, o, ObsOf(e, "sto_nb", o, "-"))

(* numerically equal hour by hour, a missing hour counting as zero *)
SameSeries(a, b) == \A h \in DOMAIN a \cup DOMAIN b : Val(a, h) = Val(b, h)

(* what building the model may raise: every error condition that holds; when several hold, which one is met first    *)
(* depends on the order in which the code visits servers and storages, which the property does not fix                  *)
PossibleRaises(T, I) ==
    LET svs == SysServers(T)
        sts == SysStorages(T)
    IN  (IF \E v \in svs : ServerCapacityError(I, v) THEN {"capacity"} ELSE {}) \cup
        (IF \E v \in svs : FixedCountError(T, I, v) THEN {"fixed-count"} ELSE {}) \cup
        (IF \E t \in sts : NegativeStorageError(T, I, t) THEN {"negative-storage"} ELSE {}) \cup
        (IF \E t \in sts : StoFixedError(T, I, t) THEN {"storage-fixed-count"} ELSE {})
(* raises that are allowed but not required: a need that equals a fixed count exactly *)
AllowedRaises(T, I) ==
    (IF \E v \in SysServers(T) : FixedCountAtTheLimit(T, I, v) THEN {"fixed-count"} ELSE {}) \cup
    (IF \E t \in SysStorages(T) : StoFixedAtTheLimit(T, I, t) THEN {"storage-fixed-count"} ELSE {})
RaiseOk(T, I, raised) ==
    \/ raised \in PossibleRaises(T, I) \cup AllowedRaises(T, I)
    \/ raised = "none" /\ PossibleRaises(T, I) = {}
ExpectedRaise(T, I) == IF PossibleRaises(T, I) = {} THEN "none" ELSE CHOOSE r \in PossibleRaises(T, I) : TRUE

CheckModel(e) ==
    LET T == Topo(e.T)
        I == e.I
        want == ExpectedRaise(T, I)
    IN
    /\ IF ~RaiseOk(T, I, e.raised) THEN Fail(e, "raise-differs", <<"spec", PossibleRaises(T, I), "code", e.raised>>) ELSE TRUE
    /\ \A n \in DOMAIN e.obs :
         LET ob == e.obs[n] IN
         IF ob.k = "nb480" /\ (Focus = {} \/ "nb480" \in Focus) /\ ~NbAcceptable(T, I, ob.o, Ser(ob))
         THEN Fail(e, "value-differs:nb480", <<ob.o, ob.a, "spec", Nb480(T, I, ob.o), "code", Ser(ob)>>)
         ELSE IF ob.k = "sto_nb" /\ (Focus = {} \/ "sto_nb" \in Focus) /\ ~StoNbAcceptable(T, I, ob.o, Ser(ob))
         THEN Fail(e, "value-differs:sto_nb", <<ob.o, ob.a, "spec", StoNb(T, I, ob.o), "code", Ser(ob)>>)
         ELSE TRUE
    /\ \A n \in DOMAIN e.obs :
         LET ob == e.obs[n]
             exp == Expected(e, T, I, ob.k, ob.o, ob.u)
             got == Ser(ob)
         IN  IF (Focus = {} \/ ob.k \in Focus) /\ ~SameSeries(exp, got)
             THEN Fail(e, "value-differs:" \o ob.k,
                       <<ob.o, ob.a, ob.u, "first differing hour",
                         CHOOSE h \in DOMAIN exp \cup DOMAIN got : Val(exp, h) # Val(got, h) /\
                              \A g \in DOMAIN exp \cup DOMAIN got : Val(exp, g) # Val(got, g) => h <= g,
                         "spec", exp, "code", got>>)
             ELSE TRUE

(********************* theorems evaluated on the OBSERVED values ************)
ObsTotal(e, kk, o, u) == Total(ObsOf(e, kk, o, u))
UsageTheorems(e) ==
    LET T == Topo(e.T)
        I == e.I
        JU == {q \in T.jobs \X SeqSet(T.sysups) : q[1] \in JobsOfUJ(T, T.uj[q[2]])}
        nh(j) == CeilDiv(I.job[j].dur, TICKS)
        bad == {<<"occurrences-not-conserved", q[1], q[2]>> : q \in {x \in JU :
                     ObsTotal(e, "occ", x[1], x[2]) # SeqSum(I.up[x[2]].vals, 1) * Multiplicity(T, T.uj[x[2]], x[1])}}
          \cup {<<"occurrence-hours-not-conserved", q[1], q[2]>> : q \in {x \in JU :
                     ObsTotal(e, "avg4", x[1], x[2]) # ObsTotal(e, "occ", x[1], x[2]) * I.job[x[1]].dur}}
          \cup {<<"data-transferred-not-conserved", q[1], q[2]>> : q \in {x \in JU :
                     I.job[x[1]].dt % nh(x[1]) = 0 /\
                     ObsTotal(e, "dt", x[1], x[2]) # ObsTotal(e, "occ", x[1], x[2]) * I.job[x[1]].dt}}
          \cup {<<"data-stored-not-conserved", q[1], q[2]>> : q \in {x \in JU :
                     I.job[x[1]].ds % nh(x[1]) = 0 /\
                     ObsTotal(e, "ds", x[1], x[2]) # ObsTotal(e, "occ", x[1], x[2]) * I.job[x[1]].ds}}
          \cup {<<"journeys-in-parallel-not-conserved", u, "-">> : u \in {x \in SeqSet(T.sysups) :
                     ObsTotal(e, "par4", x, "-") # SeqSum(I.up[x].vals, 1) * (UJDuration(T, I, T.uj[x]) \div 15)}}
          \cup {<<"occurrence-before-first-start", q[1], q[2]>> : q \in {x \in JU :
                     \E h \in DOMAIN ObsOf(e, "occ", x[1], x[2]) :
                        ObsOf(e, "occ", x[1], x[2])[h] # 0 /\ h < I.up[x[2]].start - I.tz[T.country[x[2]]]}}
    IN  IF e.raised = "none" /\ bad # {} THEN Fail(e, "usage-theorem", bad) ELSE TRUE

SizingTheorems(e) ==
    LET T == Topo(e.T)
        I == e.I
        svs == SysServers(T)
        sts == SysStorages(T)
        bad == {<<"instances-below-raw-need", v>> : v \in {x \in svs :
                   \E h \in DOMAIN ObsOf(e, "raw480", x, "-") : Val(ObsOf(e, "nb480", x, "-"), h) < ObsOf(e, "raw480", x, "-")[h]}}
          \cup {<<"serverless-not-raw", v>> : v \in {x \in svs : I.sv[x].type = "serverless" /\
                   ~SameSeries(ObsOf(e, "nb480", x, "-"), ObsOf(e, "raw480", x, "-"))}}
          \cup {<<"autoscaling-not-whole", v>> : v \in {x \in svs : I.sv[x].type = "autoscaling" /\
                   \E h \in DOMAIN ObsOf(e, "nb480", x, "-") : ObsOf(e, "nb480", x, "-")[h] % 480 # 0}}
          \cup {<<"on-premise-not-constant", v>> : v \in {x \in svs : I.sv[x].type = "on-premise" /\
                   \E g, h \in DOMAIN ObsOf(e, "nb480", x, "-") : ObsOf(e, "nb480", x, "-")[g] # ObsOf(e, "nb480", x, "-")[h]}}
          \cup {<<"fixed-count-not-honoured", v>> : v \in {x \in svs : I.sv[x].type = "on-premise" /\ I.sv[x].fixed > 0 /\
                   \E h \in DOMAIN ObsOf(e, "nb480", x, "-") : ObsOf(e, "nb480", x, "-")[h] # I.sv[x].fixed * 480}}
          \cup {<<"storage-does-not-cover-cumulative-need", t>> : t \in {x \in sts :
                   \E h \in DOMAIN ObsOf(e, "sto_cum", x, "-") :
                      ObsOf(e, "sto_cum", x, "-")[h] < 0 \/
                      Val(ObsOf(e, "sto_nb", x, "-"), h) * I.st[x].cap < ObsOf(e, "sto_cum", x, "-")[h]}}
          \cup {<<"active-above-provisioned", t>> : t \in {x \in sts :
                   \E h \in DOMAIN ObsOf(e, "sto_active_cap", x, "-") :
                      ObsOf(e, "sto_active_cap", x, "-")[h] > Val(ObsOf(e, "sto_nb", x, "-"), h) * I.st[x].cap}}
          \cup {<<"storage-fixed-count-not-honoured", t>> : t \in {x \in sts : I.st[x].fixed > 0 /\
                   \E h \in DOMAIN ObsOf(e, "sto_nb", x, "-") : ObsOf(e, "sto_nb", x, "-")[h] # I.st[x].fixed}}
    IN  /\ IF e.raised = "none" /\ bad # {} THEN Fail(e, "sizing-theorem", bad) ELSE TRUE
        /\ IF e.raised = "negative-storage" /\ \A j \in T.jobs : I.job[j].ds >= 0
           THEN Fail(e, "deletion-free-model-rejected-for-negative-storage", <<>>) ELSE TRUE

(* C02: the totals event carries, in mg, the hourly system total and each component the code summed *)
TotalsCheck(e) ==
    LET T == Topo(e.T)
        want == {<<v, "fab">> : v \in SysServers(T)} \cup {<<v, "energy">> : v \in SysServers(T)}
                \cup {<<t, "fab">> : t \in SysStorages(T)} \cup {<<t, "energy">> : t \in SysStorages(T)}
                \cup {<<n, "energy">> : n \in SysNets(T)}
                \cup {<<u, "fab">> : u \in SysUPs(T)} \cup {<<u, "energy">> : u \in SysUPs(T)}
        got == [n \in DOMAIN e.comps |-> <<e.comps[n].o, e.comps[n].part>>]
        tot == Ser(e.total)
        sum == AddAll([n \in DOMAIN e.comps |-> Ser(e.comps[n])], DOMAIN e.comps)
        slack == 60 + Len(e.comps)
        cats == {"Servers", "Storage", "Network", "Devices"}
        members(c) == CASE c = "Servers" -> SysServers(T) [] c = "Storage" -> SysStorages(T)
                        [] c = "Network" -> SysNets(T) [] c = "Devices" -> SysUPs(T)
    IN
    /\ IF SeqSet(got) # want THEN Fail(e, "total-components-differ", <<"missing", want \ SeqSet(got), "extra", SeqSet(got) \ want>>) ELSE TRUE
    /\ IF \E a, b \in DOMAIN got : a # b /\ got[a] = got[b] THEN Fail(e, "component-counted-twice", <<>>) ELSE TRUE
    /\ IF \E h \in DOMAIN tot \cup DOMAIN sum : Abs(Val(tot, h) - Val(sum, h)) > slack
       THEN Fail(e, "hourly-total-is-not-the-sum-of-components",
                 CHOOSE h \in DOMAIN tot \cup DOMAIN sum : Abs(Val(tot, h) - Val(sum, h)) > slack) ELSE TRUE
    /\ IF ~e.finite THEN Fail(e, "non-finite-footprint", e.nonfinite) ELSE TRUE
    /\ IF e.negative # <<>> /\ \A j \in T.jobs : e.I.job[j].ds >= 0 THEN Fail(e, "negative-footprint-without-deletion", e.negative) ELSE TRUE
    /\ \A c \in cats :
         /\ IF SeqSet(e.views.energy_members[c]) # members(c) \/ (c # "Network" /\ SeqSet(e.views.fab_members[c]) # members(c))
            THEN Fail(e, "per-object-view-lists-wrong-objects", c) ELSE TRUE
         /\ LET parts == {n \in DOMAIN e.comps : e.comps[n].o \in members(c) /\ e.comps[n].part = "energy"}
                 s == SumSet([n \in parts |-> Total(Ser(e.comps[n]))], parts)
            IN  IF Abs(e.views.energy_sum[c] - s) > slack * (1 + Cardinality(DOMAIN tot)) \/
                   Abs(e.views.energy_objects_sum[c] - s) > slack * (1 + Cardinality(DOMAIN tot))
                THEN Fail(e, "per-category-energy-view-inconsistent", <<c, e.views.energy_sum[c], e.views.energy_objects_sum[c], s>>) ELSE TRUE
         /\ LET parts == {n \in DOMAIN e.comps : e.comps[n].o \in members(c) /\ e.comps[n].part = "fab"}
                 s == SumSet([n \in parts |-> Total(Ser(e.comps[n]))], parts)
            IN  IF Abs(e.views.fab_sum[c] - s) > slack * (1 + Cardinality(DOMAIN tot)) \/
                   Abs(e.views.fab_objects_sum[c] - s) > slack * (1 + Cardinality(DOMAIN tot))
                THEN Fail(e, "per-category-fabrication-view-inconsistent", <<c, e.views.fab_sum[c], e.views.fab_objects_sum[c], s>>) ELSE TRUE

(* C12: two systems that differ by one driver multiplied by e.k *)
Driven(d) ==
    CASE d = "pue" -> {"srv_energy480", "srv_efp480", "sto_energy_cap", "sto_efp_cap"}
      [] d = "server-ci" -> {"srv_efp480", "sto_efp_cap"}
      [] d = "bei" -> {"net_fp"}
      [] d = "dt" -> {"dt", "dt_x", "net_fp"}
      [] d = "country-ci" -> {"net_fp", "dev_efp4"}
      [] d = "device-power" -> {"dev_energy4", "dev_efp4"}
      [] d = "device-fabrate" -> {"dev_fab4"}
      [] d = "device-lifespan-inv" -> {"dev_fab4"}
      [] d = "device-usage-fraction-inv" -> {"dev_fab4"}
      [] d = "server-fabrate" -> {"srv_fab480"}
      [] d = "server-lifespan-inv" -> {"srv_fab480"}
      [] d = "storage-fabrate" -> {"sto_fab"}
      [] d = "storage-lifespan-inv" -> {"sto_fab"}
      [] d = "traffic" -> {"utc", "par4", "dev_energy4", "dev_efp4", "dev_fab4", "occ", "avg4", "dt", "ds", "occ_x",
                           "avg4_x", "dt_x", "ds_x", "net_fp", "ram_need4", "cpu_need4", "raw480"}
(* Which observations depend on the multiplied inputs is decided by EFCore's Reads, not by the harness *)
PairCheck(e) ==
    LET T == Topo(e.T)
        CI == {<<x[1], x[2], "-">> : x \in SeqSet(e.changed_inputs)}
        aff == TrueAffected(T, T, CI)
        e2 == [e EXCEPT !.obs = e.obs2]
        serverless(o) == o \in T.servers /\ e.I.sv[o].type = "serverless"
        mustScale(ob) == \/ ob.k \in Driven(e.driver)
                         \/ (e.driver = "traffic" /\ serverless(ob.o) /\
                             ob.k \in {"nb480", "srv_fab480", "srv_energy480", "srv_efp480"})
        bad == {<<"not-multiplied-by-k", e.obs[n].k, e.obs[n].o, e.obs[n].u>> : n \in {m \in DOMAIN e.obs :
                   <<e.obs[m].o, e.obs[m].a, e.obs[m].u>> \in aff /\ mustScale(e.obs[m]) /\
                   ~SameSeries(Scale(Ser(e.obs[m]), e.k), ObsOf(e2, e.obs[m].k, e.obs[m].o, e.obs[m].u))}}
          \cup {<<"changed-though-it-does-not-depend-on-the-driver", e.obs[n].k, e.obs[n].o, e.obs[n].u>> :
                   n \in {m \in DOMAIN e.obs :
                   <<e.obs[m].o, e.obs[m].a, e.obs[m].u>> \notin aff /\
                   ~SameSeries(Ser(e.obs[m]), ObsOf(e2, e.obs[m].k, e.obs[m].o, e.obs[m].u))}}
    IN  /\ IF bad # {} THEN Fail(e, "proportionality:" \o e.driver, bad) ELSE TRUE
        /\ IF ~\E n \in DOMAIN e.obs : <<e.obs[n].o, e.obs[n].a, e.obs[n].u>> \in aff /\ mustScale(e.obs[n])
           THEN PrintT("NOTE|" \o ToString(e.tid) \o "|" \o ToString(e.seq) \o "|vacuous-pair|" \o e.driver) ELSE TRUE

(* C03 on a finer time lattice: direct calls of the two building blocks *)
CallCheck(e) ==
    CASE e.fn = "avg" ->
           IF ~SameSeries(AvgOccT(Ser(e.arg), e.dur, e.tph), Ser(e.res))
           THEN Fail(e, "call:compute_nb_avg_hourly_occurrences", <<e.dur, e.tph, "spec", AvgOccT(Ser(e.arg), e.dur, e.tph), "code", Ser(e.res)>>)
           ELSE IF Total(Ser(e.res)) # Total(Ser(e.arg)) * e.dur
           THEN Fail(e, "call:occurrence-hours-not-conserved", <<e.dur, e.tph>>) ELSE TRUE
      [] e.fn = "shift" ->
           IF ~SameSeries(Shift(Ser(e.arg), e.dur \div e.tph), Ser(e.res))
           THEN Fail(e, "call:return_shifted_hourly_quantities", <<e.dur, e.tph, "spec", Shift(Ser(e.arg), e.dur \div e.tph), "code", Ser(e.res)>>)
           ELSE TRUE

(* C04 on arbitrary floats: only the qualitative clause can be compared *)
FloatCheck(e) ==
    IF ~e.deleting /\ e.raised = "negative-storage"
    THEN Fail(e, "deletion-free-model-rejected-for-negative-storage", e.note) ELSE TRUE

(* C04 on live systems with services: what every server / storage offers at every hour (nb, cap) next to what its jobs    *)
(* need (need, cum; thousandths of an instance, MB), recomputed by the harness from the jobs' own hourly occurrences         *)
LiveSizingCheck(e) ==
    LET srvBad == UNION {{<<r.o, r.h[k], "need", r.need[k], "instances", r.nb[k]>> : k \in {x \in DOMAIN r.h :
                      \/ r.nb[x] + 1 < r.need[x]
                      \/ r.type = "autoscaling" /\ (r.nb[x] % 1000 # 0 \/ r.nb[x] - r.need[x] > 1001)
                      \/ r.type = "serverless" /\ (r.nb[x] - r.need[x] > 1)
                      \/ r.type = "on-premise" /\ (r.nb[x] % 1000 # 0 \/ r.nb[x] # r.nb[1])}} : r \in SeqSet(e.servers)}
        stoBad == UNION {{<<r.o, r.h[k], "stored", r.cum[k], "capacity", r.cap[k]>> : k \in {x \in DOMAIN r.h :
                      r.cum[x] < 0 \/ r.cap[x] + 1 < r.cum[x]}} : r \in SeqSet(e.storages)}
    IN  /\ IF "error" \in DOMAIN e THEN Fail(e, "live-sizing:could-not-be-observed", e.error) ELSE TRUE
        /\ IF srvBad # {} THEN Fail(e, "live-sizing:server-not-sized-for-its-jobs", srvBad) ELSE TRUE
        /\ IF stoBad # {} THEN Fail(e, "live-sizing:storage-not-sized-for-its-jobs", stoBad) ELSE TRUE

(* C03 off the hour lattice: a job's series across usage patterns is the sum of its per-usage-pattern entries at every       *)
(* instant (minutes since the epoch; 7 significant digits of the largest value)                                              *)
ValAt(s, t) == IF \E k \in DOMAIN s.t : s.t[k] = t THEN s.v[CHOOSE k \in DOMAIN s.t : s.t[k] = t] ELSE 0
RECURSIVE SumPerAt(_, _, _)
SumPerAt(per, t, k) == IF k = 0 THEN 0 ELSE ValAt(per[k], t) + SumPerAt(per, t, k - 1)
AcrossSumsCheck(e) ==
    LET T == SeqSet(e.across.t) \cup UNION {SeqSet(e.per[k].t) : k \in DOMAIN e.per}
        bad == {<<t, "across", ValAt(e.across, t), "sum of the entries", SumPerAt(e.per, t, Len(e.per))>> : t \in {x \in T :
                   Abs(ValAt(e.across, x) - SumPerAt(e.per, x, Len(e.per))) > Len(e.per) + 1}}
    IN  IF bad # {} THEN Fail(e, "across-usage-patterns-is-not-the-sum-of-the-entries:" \o e.attr, <<e.job, e.zones, bad>>) ELSE TRUE

Step ==
    /\ i < N
    /\ i' = i + 1
    /\ LET e == Events[i + 1] IN
       CASE e.ev = "Model" -> CheckModel(e) /\ (IF "usage" \in SeqSet(e.theorems) THEN UsageTheorems(e) ELSE TRUE)
                                           /\ (IF "sizing" \in SeqSet(e.theorems) THEN SizingTheorems(e) ELSE TRUE)
         [] e.ev = "Totals" -> TotalsCheck(e)
         [] e.ev = "Pair" -> PairCheck(e)
         [] e.ev = "Call" -> CallCheck(e)
         [] e.ev = "FloatModel" -> FloatCheck(e)
         [] e.ev = "LiveSizing" -> LiveSizingCheck(e)
         [] e.ev = "AcrossSums" -> AcrossSumsCheck(e)

Init == i = 0
Next == Step
Spec == Init /\ [][Next]_vars
AllConsumed == TLCGet("stats").diameter - 1 = N
=============================================================================
