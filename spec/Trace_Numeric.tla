----------------------------- MODULE Trace_Numeric -----------------------------
(***************************************************************************)
(* Numeric conformance: each event is one real system built (or edited)     *)
(* from lattice inputs; it carries the topology T, the lattice inputs I,    *)
(* whether building raised (and what), and every calculated hourly value    *)
(* of the real system as scaled integers.  TLC recomputes each value with   *)
(* EFNumeric and compares exactly, then evaluates the theorems of C02, C03, *)
(* C04 on the recomputed model (so that they are also checked on these      *)
(* larger, real inputs) and the observed values.                            *)
(***************************************************************************)
EXTENDS EFNumeric, Json

CONSTANTS TraceFile,
          Focus          \* set of observation kinds whose mismatch is reported ({} = all)

Events == ndJsonDeserialize(TraceFile)
N == Len(Events)
VARIABLES i
vars == <<i>>

Topo(j) ==
    [ups |-> SeqSet(j.ups), ujs |-> SeqSet(j.ujs), steps |-> SeqSet(j.steps), jobs |-> SeqSet(j.jobs),
     servers |-> SeqSet(j.servers), storages |-> SeqSet(j.storages), nets |-> SeqSet(j.nets),
     countries |-> SeqSet(j.countries), devices |-> SeqSet(j.devices),
     uj |-> j.uj, net |-> j.net, country |-> j.country, devs |-> j.devs,
     stepsOf |-> j.stepsOf, jobsOf |-> j.jobsOf, server |-> j.server, storage |-> j.storage,
     sysups |-> j.sysups]

Ser(o) == [h \in SeqSet(o.h) |-> o.v[CHOOSE k \in DOMAIN o.h : o.h[k] = h]]

Line(kind, e, clause, data) ==
    PrintT(kind \o "|" \o ToString(e.tid) \o "|" \o ToString(e.seq) \o "|" \o clause \o "|" \o ToString(data))
Fail(e, clause, data) == Line("FAIL", e, clause, data)

(* the observation of kind k for object o (and key u); EMPTY if there is none *)
ObsOf(e, k, o, u) ==
    LET X == {n \in DOMAIN e.obs : e.obs[n].k = k /\ e.obs[n].o = o /\ e.obs[n].u = u}
    IN  IF X = {} THEN EMPTY ELSE Ser(e.obs[CHOOSE n \in X : TRUE])

Expected(e, T, I, k, o, u) ==
    CASE k = "utc" -> UtcStarts(T, I, o)
      [] k = "par4" -> Par4(T, I, o)
      [] k = "dev_energy4" -> DevEnergy4(T, I, o)
      [] k = "dev_efp4" -> DevEnergyFp4(T, I, o)
      [] k = "dev_fab4" -> DevFab4(T, I, o)
      [] k = "occ" -> Occ(T, I, o, u)
      [] k = "avg4" -> Avg4(T, I, o, u)
      [] k = "dt" -> DataT(T, I, o, u)
      [] k = "ds" -> DataS(T, I, o, u)
      [] k = "occ_x" -> OccX(T, I, o)
      [] k = "avg4_x" -> Avg4X(T, I, o)
      [] k = "dt_x" -> DataTX(T, I, o)
      [] k = "ds_x" -> DataSX(T, I, o)
      [] k = "net_fp" -> NetFp(T, I, o)
      [] k = "ram_need4" -> RamNeed4(T, I, o)
      [] k = "cpu_need4" -> CpuNeed4(T, I, o)
      [] k = "raw480" -> Raw480(T, I, o)
      [] k = "nb480" -> ObsOf(e, "nb480", o, u)          \* judged by NbAcceptable
      [] k = "srv_fab480" -> SrvFab480N(I, o, ObsOf(e, "nb480", o, "-"))
      [] k = "srv_energy480" -> SrvEnergy480N(T, I, o, ObsOf(e, "nb480", o, "-"))
      [] k = "srv_efp480" -> SrvEnergyFp480N(T, I, o, ObsOf(e, "nb480", o, "-"))
      [] k = "sto_delta" -> StoDelta(T, I, o)
      [] k = "sto_cum" -> StoCumulative(T, I, o)
      [] k = "sto_nb" -> ObsOf(e, "sto_nb", o, u)        \* judged by StoNbAcceptable
      [] k = "sto_active_cap" -> StoActiveCapN(T, I, o, ObsOf(e, "sto_nb", o, "-"))
      [] k = "sto_fab" -> StoFabN(I, o, ObsOf(e, "sto_nb", o, "-"))
      [] k = "sto_energy_cap" -> StoEnergyCapN(T, I, o, ObsOf(e, "sto_nb", o, "-"))
      [] k = "sto_efp_cap" -> StoEnergyFpCapN(T, I, o, ObsOf(e, "sto_nb", o, "-"))

(* numerically equal hour by hour, a missing hour counting as zero *)
SameSeries(a, b) == \A h \in DOMAIN a \cup DOMAIN b : Val(a, h) = Val(b, h)

(* what building the model must raise, in the order the code computes things *)
ExpectedRaise(T, I) ==
    LET svs == SysServers(T)
        sts == SysStorages(T)
    IN  IF \E v \in svs : ServerCapacityError(I, v) THEN "capacity"
        ELSE IF \E v \in svs : FixedCountError(T, I, v) THEN "fixed-count"
        ELSE IF \E t \in sts : NegativeStorageError(T, I, t) THEN "negative-storage"
        ELSE IF \E t \in sts : StoFixedError(T, I, t) THEN "storage-fixed-count"
        ELSE "none"

CheckModel(e) ==
    LET T == Topo(e.T)
        I == e.I
        want == ExpectedRaise(T, I)
    IN
    /\ IF e.raised # want THEN Fail(e, "raise-differs", <<"spec", want, "code", e.raised>>) ELSE TRUE
    /\ \A n \in DOMAIN e.obs :
         LET ob == e.obs[n] IN
         IF ob.k = "nb480" /\ (Focus = {} \/ "nb480" \in Focus) /\ ~NbAcceptable(T, I, ob.o, Ser(ob))
         THEN Fail(e, "value-differs:nb480", <<ob.o, ob.a, "spec", Nb480(T, I, ob.o), "code", Ser(ob)>>)
         ELSE IF ob.k = "sto_nb" /\ (Focus = {} \/ "sto_nb" \in Focus) /\ ~StoNbAcceptable(T, I, ob.o, Ser(ob))
         THEN Fail(e, "value-differs:sto_nb", <<ob.o, ob.a, "spec", StoNb(T, I, ob.o), "code", Ser(ob)>>)
         ELSE TRUE
    /\ \A n \in DOMAIN e.obs :
         LET ob == e.obs[n]
             exp == Expected(e, T, I, ob.k, ob.o, ob.u)
             got == Ser(ob)
         IN  IF (Focus = {} \/ ob.k \in Focus) /\ ~SameSeries(exp, got)
             THEN Fail(e, "value-differs:" \o ob.k,
                       <<ob.o, ob.a, ob.u, "first differing hour",
                         CHOOSE h \in DOMAIN exp \cup DOMAIN got : Val(exp, h) # Val(got, h) /\
                              \A g \in DOMAIN exp \cup DOMAIN got : Val(exp, g) # Val(got, g) => h <= g,
                         "spec", exp, "code", got>>)
             ELSE TRUE

Step ==
    /\ i < N
    /\ i' = i + 1
    /\ CheckModel(Events[i + 1])

Init == i = 0
Next == Step
Spec == Init /\ [][Next]_vars
AllConsumed == TLCGet("stats").diameter - 1 = N
=============================================================================
