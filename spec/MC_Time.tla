-------------------------------- MODULE MC_Time --------------------------------
(* Theorems on EFTime over parametric zones with one transition and short series around it. *)
EXTENDS EFTime
VARIABLES zone, v, phase
vars == <<zone, v, phase>>
T0 == 6000        \* the transition instant (a whole hour), minutes
Zones == {<<[at |-> -1000000, off |-> o1], [at |-> T0, off |-> o1 + d]>> :
             o1 \in {-720, -300, 0, 330, 345, 630, 840}, d \in {-60, -30, 30, 60, 1440}}
Series == {[L \in {s + 60 * k : k \in 0..(n - 1)} |-> 1 + ((L \div 60) % 3)] : s \in {T0 - 180, T0 - 120}, n \in {1, 5, 8}}
Init == zone \in Zones /\ phase = "chosen" /\ \E sv \in Series :
            v = [L \in {x + zone[1].off : x \in DOMAIN sv} |-> sv[L - zone[1].off]]     \* local series straddling the change
Next == phase = "chosen" /\ phase' = "evaluate" /\ UNCHANGED <<zone, v>>
Spec == Init /\ [][Next]_vars

Delta == zone[2].off - zone[1].off
EveryLocalTimeIsPlaced == phase = "evaluate" => \A L \in DOMAIN v : Cardinality(Allowed(zone, L)) \in {1, 2}
ChoiceOnlyAtTheTransition ==
    phase = "evaluate" =>
    \A L \in DOMAIN v :
        /\ (Instants(zone, L) = {} <=> (Delta > 0 /\ T0 + zone[1].off <= L /\ L < T0 + zone[2].off))
        /\ (Cardinality(Instants(zone, L)) = 2 <=> (Delta < 0 /\ T0 + zone[2].off <= L /\ L < T0 + zone[1].off))
AnyAdmissibleConversionPreservesTheTotal ==
    phase = "evaluate" =>
    LET ch == Choices(zone, DOMAIN v) IN
    \A f \in [ch -> {1, 2}] :
        LET out == Placed(zone, v, f) IN
        /\ TotalPreserved(v, out)
        /\ Admissible(zone, v, out)
        /\ \A L \in Fixed(zone, DOMAIN v) : The(Allowed(zone, L)) \in DOMAIN out
=============================================================================
