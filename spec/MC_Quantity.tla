------------------------------ MODULE MC_Quantity ------------------------------
(* Algebraic laws of EFQuantity over all pairs of a small catalogue of operands. *)
EXTENDS EFQuantity
VARIABLES a, b
vars == <<a, b>>
Dims == {<<>>, [p |-> 1], [p |-> 1, t |-> -1]}
Series == {[h \in {0, 1, 2} |-> 12 * (h + 1)], [h \in {1, 2} |-> 4], [h \in {5} |-> 6], [h \in {0, 1, 2} |-> -12]}
Operands == {E} \cup {Q(d, v) : d \in Dims, v \in {0, 4, 12}} \cup {H(d, s, w) : d \in Dims, s \in Series, w \in BOOLEAN}
Init == a \in Operands /\ b \in Operands
Next == UNCHANGED vars
Spec == Init /\ [][Next]_vars
Raises(x) == x.kind = "X"
EmptyNeutralForAddition == SameValue(Apply("+", a, E), a) /\ SameValue(Apply("+", E, a), a)
EmptyAbsorbingForMultiplication == Apply("*", a, E) = E /\ Apply("*", E, a) = E
AdditionCommutes == SameValue(Apply("+", a, b), Apply("+", b, a))
MultiplicationCommutes == SameValue(Apply("*", a, b), Apply("*", b, a))
IncompatibleDimensionsRaise ==
    (a.kind = b.kind /\ a.kind \in {"Q", "H"} /\ ~SameDim(a.dim, b.dim)) => Raises(Apply("+", a, b)) /\ Raises(Apply("-", a, b))
ProductDimension ==
    (a.kind \in {"Q", "H"} /\ b.kind \in {"Q", "H"} /\ ~Raises(Apply("*", a, b))) => Apply("*", a, b).dim = DimAdd(a.dim, b.dim)
TotalsAddUp ==
    (a.kind = "H" /\ b.kind = "H" /\ ~Raises(Apply("+", a, b))) =>
        Apply1("sum", Apply("+", a, b), 0).v = Apply1("sum", a, 0).v + Apply1("sum", b, 0).v
ShiftKeepsTotal == a.kind = "H" => Apply1("sum", Apply1("shift", a, 3), 0) = Apply1("sum", a, 0)
CompareBounds ==
    (a.kind = "H" /\ b.kind = "H" /\ a.aware = b.aware) =>
        \A h \in DOMAIN Compare("max", a, b).s : Compare("max", a, b).s[h] >= Compare("min", a, b).s[h]
=============================================================================
