---------------------------- MODULE Trace_Services ----------------------------
(***************************************************************************)
(* Link changes of the service layer recorded from the real code (a service *)
(* job re-pointed to another service, a service re-pointed to another       *)
(* server), validated against EFServices.  One event per change:            *)
(*   Relink : S = the topology BEFORE the change (names of the real         *)
(*            objects), ch = [obj, old, new], obj_chain = the object chain  *)
(*            the ModelingUpdate really built (hook "chains"), differs =    *)
(*            what differs from a system built that way from scratch        *)
(*            (<<>> when that comparison was not made).                     *)
(* Clauses: the observed chain contains every object EFServices says reads  *)
(* something the change alters (Need); the observed chain is the one the    *)
(* model of the code computes (Chain) -- a divergence NOTE otherwise.       *)
(***************************************************************************)
EXTENDS EFServices, TLC, Json
CONSTANTS TraceFile
Events == ndJsonDeserialize(TraceFile)
N == Len(Events)
VARIABLES i
vars == <<i>>
SeqSet(s) == {s[k] : k \in DOMAIN s}
Line(kind, e, clause, data) ==
    PrintT(kind \o "|" \o ToString(e.tid) \o "|" \o ToString(e.seq) \o "|" \o clause \o "|" \o ToString(data))
Fail(e, clause, data) == Line("FAIL", e, clause, data)
Note(e, clause, data) == Line("NOTE", e, clause, data)

Topo(j) == [servers |-> SeqSet(j.servers), services |-> SeqSet(j.services), sjobs |-> SeqSet(j.sjobs), pjobs |-> SeqSet(j.pjobs),
            calc |-> SeqSet(j.calc), srvOf |-> j.srvOf, svcOf |-> j.svcOf, pserver |-> j.pserver, stoOf |-> j.stoOf]

CheckRelink(e) ==
    LET S == Topo(e.S)
        ch == [obj |-> e.ch.obj, old |-> e.ch.old, new |-> e.ch.new]
        observed == SeqSet(e.obj_chain)
        need == Need(S, ch)
        spec == Chain(S, ch, TRUE, TRUE)
    IN  /\ IF ~WellFormedMove(S, ch) THEN Fail(e, "relink:not-a-move-of-the-model", ch) ELSE TRUE
        /\ IF ~(need \subseteq observed) THEN Fail(e, "relink:chain-misses-an-object-that-reads-what-changed", need \ observed) ELSE TRUE
        /\ IF observed \cap Objs(S) # spec THEN Note(e, "relink:chain-differs-from-the-model", <<"code", observed \cap Objs(S), "model", spec>>) ELSE TRUE
        /\ IF Len(e.differs) # 0 THEN Fail(e, "relink:differs-from-a-system-built-that-way", e.differs) ELSE TRUE

Step ==
    /\ i < N
    /\ i' = i + 1
    /\ LET e == Events[i + 1] IN
       CASE e.ev = "Relink" -> CheckRelink(e)
         [] OTHER -> TRUE
Init == i = 0
Next == Step
Spec == Init /\ [][Next]_vars
AllConsumed == TLCGet("stats").diameter - 1 = N
=============================================================================
