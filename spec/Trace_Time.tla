------------------------------ MODULE Trace_Time ------------------------------
(* Recorded conversions of the real code (convert_to_utc / update_utc_hourly_usage_journey_starts) against EFTime. *)
EXTENDS EFTime, Json
CONSTANTS TraceFile
Events == ndJsonDeserialize(TraceFile)
N == Len(Events)
VARIABLES i
vars == <<i>>
Line(kind, e, clause, data) ==
    PrintT(kind \o "|" \o ToString(e.tid) \o "|" \o ToString(e.seq) \o "|" \o clause \o "|" \o ToString(data))
Fail(e, clause, data) == Line("FAIL", e, clause, data)
SeqSetT(s) == {s[n] : n \in DOMAIN s}
Ser(t, vv) == [x \in SeqSetT(t) |-> vv[CHOOSE n \in DOMAIN t : t[n] = x]]
Zone(e) == [k \in DOMAIN e.zone |-> [at |-> e.zone[k][1], off |-> e.zone[k][2]]]
Check(e) ==
    LET zone == Zone(e)
        v == Ser(e.local_t, e.local_v)
        out == Ser(e.utc_t, e.utc_v)
    IN
    /\ IF \E a, b \in DOMAIN e.utc_t : a < b /\ e.utc_t[a] >= e.utc_t[b]
       THEN Fail(e, "timestamps-not-strictly-increasing", <<>>) ELSE TRUE
    /\ IF ~TotalPreserved(v, out) THEN Fail(e, "total-not-preserved", <<SumV(v, DOMAIN v), SumV(out, DOMAIN out)>>) ELSE TRUE
    /\ IF ~Admissible(zone, v, out) THEN Fail(e, "values-not-at-local-time-minus-offset", <<"zone", e.name, "utc", out>>) ELSE TRUE
(* usage patterns of different zones feeding the same job are combined on the common UTC time line: the job's series across *)
(* usage patterns is, instant by instant, the sum of the patterns' UTC series (an instant missing in one counts as zero)      *)
CheckCombine(e) ==
    LET a == Ser(e.utc1_t, e.utc1_v)
        b == Ser(e.utc2_t, e.utc2_v)
        c == Ser(e.sum_t, e.sum_v)
        At(s, x) == IF x \in DOMAIN s THEN s[x] ELSE 0
        bad == {x \in DOMAIN a \cup DOMAIN b \cup DOMAIN c : At(c, x) # At(a, x) + At(b, x)}
    IN  IF bad # {} THEN Fail(e, "patterns-not-combined-instant-by-instant", <<e.name, bad>>) ELSE TRUE
Step == i < N /\ i' = i + 1 /\ (IF Events[i + 1].ev = "Combine" THEN CheckCombine(Events[i + 1]) ELSE Check(Events[i + 1]))
Init == i = 0
Next == Step
Spec == Init /\ [][Next]_vars
AllConsumed == TLCGet("stats").diameter - 1 = N
=============================================================================
