----------------------------- MODULE Trace_Explain -----------------------------
(***************************************************************************)
(* Every computed value is reproduced by the formula it displays (C07).     *)
(* An event is the explanation tree of one calculated attribute of a real   *)
(* system, from the attribute down to the values attached to the model (or  *)
(* to parentless values): nodes = sequence of records                       *)
(*   [op, l, r]      operator and positions of the operands (0 = none)      *)
(*   [kind, dim]     E (empty) / Q (scalar) / H (hourly), dimension vector  *)
(*   [label, source, attached, input]  what the node carries                *)
(*   [smp]           for + - * / nodes, for each sampled hour (one sample   *)
(*                   for scalars) the operand and result magnitudes as      *)
(*                   decimal floats: 4-digit mantissas for * and /, a       *)
(*                   common exponent with 7 digits for + and -              *)
(* TLC re-evaluates the recorded operation on the recorded operands, checks *)
(* the dimension algebra (EFQuantity) and the structural rules.             *)
(***************************************************************************)
EXTENDS EFQuantity, Json
CONSTANTS TraceFile
Events == ndJsonDeserialize(TraceFile)
N == Len(Events)
VARIABLES i
vars == <<i>>
Line(kind, e, clause, data) ==
    PrintT(kind \o "|" \o ToString(e.tid) \o "|" \o ToString(e.seq) \o "|" \o clause \o "|" \o ToString(data))
Fail(e, clause, data) == Line("FAIL", e, clause, data)
SeqSetX(s) == {s[n] : n \in DOMAIN s}
DimOf(j) == Norm([k \in {p[1] : p \in SeqSetX(j)} |-> (CHOOSE p \in SeqSetX(j) : p[1] = k)[2]])
Arith == {"+", "-", "*", "/"}

(* one sample: the recorded operation applied to the recorded operands gives the recorded value *)
MaxV(a, b) == IF a >= b THEN a ELSE b
MinV(a, b) == IF a <= b THEN a ELSE b
(* the other recorded operators (s.f names the function; operands and value in base units): element-wise ceil of a count   *)
(* (thousandths), absolute value, negation, the larger / smaller of two values, and the sum / mean / maximum of a series     *)
(* (aggregated by the harness over the whole recorded operand)                                                             *)
OtherOK(s) ==
    CASE s.f = "ceil" -> /\ s.N >= s.L - 1 /\ s.N - s.L <= 1001
                         /\ (s.N % 1000 <= 1 \/ s.N % 1000 >= 999)
      [] s.f = "abs"  -> AbsV(AbsV(s.L) - s.N) <= 3
      [] s.f = "neg"  -> AbsV(s.L + s.N) <= 3
      [] s.f = "max2" -> AbsV(MaxV(s.L, s.R) - s.N) <= 3
      [] s.f = "min2" -> AbsV(MinV(s.L, s.R) - s.N) <= 3
      [] s.f = "agg"  -> AbsV(s.L - s.N) <= 3
      [] OTHER -> TRUE

SampleOK(op, s) ==
    IF "f" \in DOMAIN s THEN OtherOK(s) ELSE
    CASE op = "+" -> AbsV(s.L + s.R - s.N) <= 3
      [] op = "-" -> AbsV(s.L - s.R - s.N) <= 3
      [] op = "*" -> AbsV(s.L * s.R - s.N) <= 2 + AbsV(s.N) \div 400        \* 4-digit mantissas: 2.5e-3 relative
      [] op = "/" -> AbsV(s.N * s.R - s.L) <= 2 + AbsV(s.L) \div 400        \* n = l / r  <=>  n * r = l

DimOK(op, n, l, r) ==
    \* an empty operand has no dimension of its own
    IF l.kind = "E" \/ r.kind = "E" \/ n.kind = "E" THEN TRUE
    ELSE CASE op \in {"+", "-"} -> SameDim(DimOf(l.dim), DimOf(r.dim)) /\ SameDim(DimOf(n.dim), DimOf(l.dim))
           [] op = "*" -> SameDim(DimOf(n.dim), DimAdd(DimOf(l.dim), DimOf(r.dim)))
           [] op = "/" -> SameDim(DimOf(n.dim), DimSub(DimOf(l.dim), DimOf(r.dim)))

CheckTree(e) ==
    LET nodes == e.nodes
        bad == {<<"value-not-reproduced-by-" \o nodes[k].op, k>> : k \in {x \in DOMAIN nodes :
                    nodes[x].l # 0 /\
                    \E m \in DOMAIN nodes[x].smp : ~SampleOK(nodes[x].op, nodes[x].smp[m])}}
          \cup {<<"wrong-dimension-for-" \o nodes[k].op, k>> : k \in {x \in DOMAIN nodes :
                    nodes[x].op \in Arith /\ nodes[x].l # 0 /\ nodes[x].r # 0 /\
                    ~DimOK(nodes[x].op, nodes[x], nodes[nodes[x].l], nodes[nodes[x].r])}}
          \cup {<<"leaf-without-label", k>> : k \in {x \in DOMAIN nodes :
                    nodes[x].leaf /\ nodes[x].kind # "E" /\ ~nodes[x].label}}
          \cup {<<"leaf-without-source:" \o nodes[k].text, k>> : k \in {x \in DOMAIN nodes :
                    nodes[x].leaf /\ nodes[x].kind # "E" /\ ~nodes[x].source}}
          \cup {<<"leaf-is-not-an-input-of-the-model:" \o nodes[k].text, k>> : k \in {x \in DOMAIN nodes :
                    nodes[x].leaf /\ nodes[x].kind # "E" /\ nodes[x].source /\ ~nodes[x].input /\ ~nodes[x].constant}}
    IN
    /\ IF ~e.explain_ok THEN Fail(e, "explain-raises", e.explain_error) ELSE TRUE
    /\ IF ~nodes[1].label THEN Fail(e, "calculated-attribute-without-label", e.slot) ELSE TRUE
    /\ IF bad # {} THEN Fail(e, "explanation", <<e.slot, bad>>) ELSE TRUE

Step == i < N /\ i' = i + 1 /\ CheckTree(Events[i + 1])
Init == i = 0
Next == Step
Spec == Init /\ [][Next]_vars
AllConsumed == TLCGet("stats").diameter - 1 = N
=============================================================================
