--------------------------- MODULE MC_Update_Emit ---------------------------
(***************************************************************************)
(* Spec -> code direction for the recomputation chain (C01): the same       *)
(* initial states as MC_Update (every well-formed topology of the small     *)
(* universe, one representative per symmetry class), each printed as one    *)
(* JSON line so that the harness can build the corresponding REAL system    *)
(* and execute on it every edit the model distinguishes.                    *)
(***************************************************************************)
EXTENDS MC_Update, Json

ListJson(f) == [k \in DOMAIN f |-> f[k]]
EmitTopology ==
    /\ Check
    /\ PrintT("TOPO|" \o ToJson([uj |-> topo.uj, net |-> topo.net, country |-> topo.country, devs |-> topo.devs,
                                  stepsOf |-> topo.stepsOf, jobsOf |-> topo.jobsOf, server |-> topo.server,
                                  storage |-> topo.storage, sysups |-> topo.sysups]))
EmitSpec == Init /\ [][EmitTopology]_vars
=============================================================================
