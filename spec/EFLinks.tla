------------------------------- MODULE EFLinks -------------------------------
(***************************************************************************)
(* List-valued links of e-footprint at two levels.                          *)
(*                                                                         *)
(* Abstract level (what C16 states): a list attribute of a container object *)
(* holds a Python list `abs` of elements; an element is "used by" the       *)
(* container iff it occurs in the list.  PyOp is the Python list semantics  *)
(* of every mutator, including the exceptions.                              *)
(*                                                                         *)
(* Implementation level (list_linked_to_modeling_obj.py,                    *)
(* contextual_modeling_object_attribute.py, modeling_update.py:92-126):     *)
(* list OBJECTS with identity and an attached flag, one WRAPPER per         *)
(* reference with its own attached flag; the reverse look-up of an element  *)
(* is "some attached wrapper targets it".  Every mutator                    *)
(*   1. computes the new content on a plain copy (may raise),               *)
(*   2. builds a throw-away copy L1 of itself with attached wrappers,       *)
(*   3. runs ModelingUpdate([[L1, new content]]) which installs a new list  *)
(*      L2 and detaches L1 -- unless old == new, in which case the change   *)
(*      is dropped,                                                         *)
(*   4. detaches itself, 5. mutates itself in place.                        *)
(* `x += l` / `x *= n` then re-assign the (detached, mutated) old list.     *)
(*                                                                         *)
(* Flags select the pinned or the repaired behaviour of four defects.       *)
(***************************************************************************)
EXTENDS EFPyList

CONSTANTS Elems,        \* the elements that may be put in the list
          MaxLen,       \* bound on the abstract list (state constraint)
          FixNoOp,      \* a no-op change of a throw-away copy is not dropped by ModelingUpdate
          FixRemove,    \* remove() detaches the wrapper, not the raw element
          FixImul,      \* `*= n` extends with the initial content, clears for n <= 0
          FixRefused    \* a mutation refused by ModelingUpdate detaches the throw-away copy it had built

VARIABLES abs,          \* abstract Python list (Seq(Elems))
          cur,          \* id of the list object that is the attribute's value
          vals,         \* list object id -> Seq(wrapper id)
          lat,          \* list object id -> attached?
          wt,           \* wrapper id -> element
          wa,           \* wrapper id -> attached?
          out           \* outcome of the last operation
vars == <<abs, cur, vals, lat, wt, wa, out>>

Targets(l) == [i \in DOMAIN vals[l] |-> wt[vals[l][i]]]
NextW == Cardinality(DOMAIN wt) + 1
NextL == Cardinality(DOMAIN vals) + 1

(**************************** implementation *******************************)
(* allocate a list object holding fresh wrappers for the elements of s *)
WithNewList(W, s, attached) ==
    \* W = [vals, lat, wt, wa]; returns the record extended with list NextL-like ids computed from W itself
    LET nl == Cardinality(DOMAIN W.vals) + 1
        nw == Cardinality(DOMAIN W.wt)
        ws == [k \in 1..Len(s) |-> nw + k]
    IN  [vals |-> [l \in DOMAIN W.vals \cup {nl} |-> IF l = nl THEN ws ELSE W.vals[l]],
         lat  |-> [l \in DOMAIN W.lat \cup {nl} |-> IF l = nl THEN attached ELSE W.lat[l]],
         wt   |-> [w \in DOMAIN W.wt \cup SeqSet(ws) |-> IF w \in DOMAIN W.wt THEN W.wt[w] ELSE s[w - nw]],
         wa   |-> [w \in DOMAIN W.wa \cup SeqSet(ws) |-> IF w \in DOMAIN W.wa THEN W.wa[w] ELSE attached],
         id   |-> nl]

(* list.set_modeling_obj_container(None, None): the list and all its wrappers are detached *)
Detach(W, l) ==
    [W EXCEPT !.lat = [W.lat EXCEPT ![l] = FALSE],
              !.wa = [w \in DOMAIN W.wa |-> IF w \in SeqSet(W.vals[l]) THEN FALSE ELSE W.wa[w]]]
Attach(W, l) ==
    [W EXCEPT !.lat = [W.lat EXCEPT ![l] = TRUE],
              !.wa = [w \in DOMAIN W.wa |-> IF w \in SeqSet(W.vals[l]) THEN TRUE ELSE W.wa[w]]]

World == [vals |-> vals, lat |-> lat, wt |-> wt, wa |-> wa, id |-> 0]
TargetsIn(W, l) == [i \in DOMAIN W.vals[l] |-> W.wt[W.vals[l][i]]]

(* ModelingUpdate([[old, newContent]]) where old is list object `old` (the live one or a throw-away copy).  *)
(* Returns <<W', cur'>>                                                                                   *)
UpdateList(W, c, old, newContent) ==
    LET W2 == WithNewList(W, newContent, FALSE)          \* ListLinkedToModelingObj(new_value)
        isCopy == old # c
        dropped == TargetsIn(W, old) = newContent /\ ~(FixNoOp /\ isCopy)
    IN  IF dropped THEN <<W2, c>>
        ELSE <<Attach(Detach(W2, old), W2.id), W2.id>>    \* replace_in_mod_obj_container_without_recomputation

(* in-place mutation of the (now usually detached) old list object `self`, step 5 of each mutator:          *)
(* content of self afterwards, as element sequence; new wrappers take self's attached flag                  *)
InPlace(s, op) ==
    CASE op.name = "imul" ->
           IF FixImul THEN Repeat(s, op.n)
           ELSE IF op.n <= 1 THEN s ELSE Repeat(s, 2 ^ (op.n - 1))   \* self.extend(self.copy()) n-1 times
      [] OTHER -> PyOp(s, op).val

SetSelfContent(W, self, s) ==
    \* simplification: the old list gets fresh wrappers carrying its own attached flag; wrappers it held
    \* keep their flag (they are detached already unless the change was dropped)
    LET nw == Cardinality(DOMAIN W.wt)
        ws == [k \in 1..Len(s) |-> nw + k]
        at == W.lat[self]
    IN  [W EXCEPT !.vals = [W.vals EXCEPT ![self] = ws],
                  !.wt = [w \in DOMAIN W.wt \cup SeqSet(ws) |-> IF w \in DOMAIN W.wt THEN W.wt[w] ELSE s[w - nw]],
                  !.wa = [w \in DOMAIN W.wa \cup SeqSet(ws) |-> IF w \in DOMAIN W.wa THEN W.wa[w] ELSE at]]

Install(W, c, o, a) ==
    /\ vals' = W.vals /\ lat' = W.lat /\ wt' = W.wt /\ wa' = W.wa /\ cur' = c /\ out' = o /\ abs' = a

Mutate(op) ==
    LET self == cur
        s == Targets(self)
        r == PyOp(s, op)
    IN
    IF ~lat[self] THEN Install(World, cur, "AttributeError-detached-list", abs)     \* copy has no container
    ELSE IF ~r.ok THEN Install(World, cur, r.exc, abs)
    ELSE
      LET W1 == WithNewList(World, s, TRUE)                       \* return_copy_with_same_attributes
          U == UpdateList(W1, cur, W1.id, r.val)
          W3 == Detach(U[1], self)                                \* self.set_modeling_obj_container(None, None)
          W4 == SetSelfContent(W3, self, InPlace(s, op))
          removeRaises == op.name = "remove" /\ ~FixRemove        \* value.set_modeling_obj_container on a raw object
      IN
      IF op.name \in {"iadd", "imul"}
      THEN \* obj.attr = self  ->  ModelingUpdate([[current attribute, self]])
           LET V == UpdateList(W4, U[2], U[2], TargetsIn(W4, self))
           IN  Install(V[1], V[2], "ok", r.val)
      ELSE Install(W4, U[2], IF removeRaises THEN "AttributeError-after-removal" ELSE "ok", r.val)

(* a mutation that would add an element the update refuses (an object of another system): steps 1-2 are done, the update   *)
(* raises while parsing its change list, nothing is installed; the copy built in step 2 must not stay attached            *)
Adds(op) == op.name \in {"append", "insert", "extend", "iadd", "setitem"}
Refused(op) ==
    LET self == cur
        s == Targets(self)
        r == PyOp(s, op)
    IN  /\ Adds(op) /\ lat[self] /\ r.ok
        /\ LET W1 == WithNewList(World, s, TRUE)
               W2 == IF FixRefused THEN Detach(W1, W1.id) ELSE W1
           IN  Install(W2, cur, "PermissionError", abs)

(* obj.attr = [..] : plain assignment of a new list *)
Assign(l) ==
    LET U == UpdateList(World, cur, cur, l) IN Install(U[1], U[2], "ok", l)

Ops ==
    {[name |-> "append", x |-> e, i |-> 0, l |-> <<>>, n |-> 0] : e \in Elems} \cup
    {[name |-> "insert", x |-> e, i |-> k, l |-> <<>>, n |-> 0] : e \in Elems, k \in 0..2} \cup
    {[name |-> nm, x |-> CHOOSE e \in Elems : TRUE, i |-> 0, l |-> ll, n |-> 0] :
        nm \in {"extend", "iadd"}, ll \in {<<>>} \cup {<<e>> : e \in Elems} \cup {<<e, f>> : e \in Elems, f \in Elems}} \cup
    {[name |-> "imul", x |-> CHOOSE e \in Elems : TRUE, i |-> 0, l |-> <<>>, n |-> k] : k \in 0..3} \cup
    {[name |-> nm, x |-> CHOOSE e \in Elems : TRUE, i |-> k, l |-> <<>>, n |-> 0] :
        nm \in {"pop", "delitem"}, k \in 0..2} \cup
    {[name |-> "poplast", x |-> CHOOSE e \in Elems : TRUE, i |-> 0, l |-> <<>>, n |-> 0]} \cup
    {[name |-> "setitem", x |-> e, i |-> k, l |-> <<>>, n |-> 0] : e \in Elems, k \in 0..2} \cup
    {[name |-> "remove", x |-> e, i |-> 0, l |-> <<>>, n |-> 0] : e \in Elems} \cup
    {[name |-> "clear", x |-> CHOOSE e \in Elems : TRUE, i |-> 0, l |-> <<>>, n |-> 0]}

InitLists == {<<>>} \cup {<<e>> : e \in Elems} \cup {<<e, f>> : e \in Elems, f \in Elems}

Init ==
    \E s \in InitLists :
      LET W == WithNewList([vals |-> <<>>, lat |-> <<>>, wt |-> <<>>, wa |-> <<>>], s, TRUE)
      IN  vals = W.vals /\ lat = W.lat /\ wt = W.wt /\ wa = W.wa /\ cur = W.id /\ abs = s /\ out = "init"

Next == (\E op \in Ops : Mutate(op)) \/ (\E op \in Ops : Refused(op)) \/ (\E l \in InitLists : Assign(l))
Spec == Init /\ [][Next]_vars

Bound == Len(abs) <= MaxLen
(* garbage (superseded list objects, detached wrappers) is not part of the observable state *)
View == <<abs, Targets(cur), lat[cur], [i \in DOMAIN vals[cur] |-> wa[vals[cur][i]]],
          {wt[w] : w \in {x \in DOMAIN wt : wa[x] /\ x \notin SeqSet(vals[cur])}}, out>>

(******************************* properties ********************************)
UsedBy(x) == \E w \in DOMAIN wt : wt[w] = x /\ wa[w]          \* reverse look-up of element x
ContentLikePython == Targets(cur) = abs                        \* the attribute holds what Python would hold
LiveListAttached == lat[cur] /\ \A w \in SeqSet(vals[cur]) : wa[w]
ReverseAgreesWithForward == \A x \in Elems : UsedBy(x) <=> x \in SeqSet(abs)
NoSpuriousError == out \notin {"AttributeError-detached-list", "AttributeError-after-removal"}
=============================================================================
