----------------------------- MODULE EFServices -----------------------------
(***************************************************************************)
(* The service layer of e-footprint (builders/services): servers, the       *)
(* services installed on them, service jobs (linked to a service, run on    *)
(* the service's server) and plain jobs (linked to a server).  Object level *)
(* only: WHICH objects a link change makes the code recompute (the object   *)
(* chain of ModelingUpdate, built from                                      *)
(* modeling_objects_whose_attributes_depend_directly_on_me on the topology  *)
(* BEFORE the change) against WHICH objects read something the change       *)
(* alters.  EFCore leaves services out (its Reads tables are those of the   *)
(* core classes); this module is their counterpart for the builders' links. *)
(*                                                                         *)
(* A topology S is a record                                                *)
(*   servers, services, sjobs, pjobs : sets of ids    calc \subseteq services *)
(*   srvOf : [services -> servers]   svcOf : [sjobs -> services]           *)
(*   pserver : [pjobs -> servers]    stoOf : [servers -> storage ids]      *)
(* calc = the services that have calculated attributes of their own, which  *)
(* they and their jobs compute from the server (GenAIModel: GPUs needed     *)
(* from the RAM per GPU); the others (WebApplication, VideoStreaming) and   *)
(* their jobs read only their own inputs.                                   *)
(***************************************************************************)
EXTENDS Naturals, FiniteSets, Sequences

NET == "network"
SYSTEM == "system"

Storages(S) == {S.stoOf[v] : v \in S.servers}
Jobs(S) == S.sjobs \cup S.pjobs
Objs(S) == S.servers \cup S.services \cup Jobs(S) \cup Storages(S) \cup {NET, SYSTEM}

ServerOfJob(S, j) == IF j \in S.sjobs THEN S.srvOf[S.svcOf[j]] ELSE S.pserver[j]
JobsOn(S, v) == {j \in Jobs(S) : ServerOfJob(S, j) = v}
Installed(S, v) == {s \in S.services : S.srvOf[s] = v}
JobsOfService(S, s) == {j \in S.sjobs : S.svcOf[j] = s}

(* modeling_objects_whose_attributes_depend_directly_on_me, per class (service_base_class.py, service_job_base_class.py,  *)
(* job.py, server_base.py).  listsServer = FALSE is the seeded change "a service no longer lists its server".            *)
DependsOnMe(S, o, listsServer) ==
    CASE o \in S.services -> (IF listsServer THEN {S.srvOf[o]} ELSE {}) \cup JobsOfService(S, o)
      [] o \in Jobs(S)    -> {ServerOfJob(S, o), NET}
      [] o \in S.servers  -> {S.stoOf[o]}
      [] OTHER            -> {}

RECURSIVE Closure(_, _, _)
Closure(S, X, listsServer) ==
    LET N == X \cup UNION {DependsOnMe(S, o, listsServer) : o \in X}
    IN  IF N = X THEN X ELSE Closure(S, N, listsServer)

HasCalc(S, o) == o \in S.sjobs \/ o \in S.calc

(* a change re-points one link: ch = [obj, old, new]; obj a service job (its service) or a service (its server).          *)
(* compute_mod_objs_computation_chain_from_old_and_new_modeling_objs: the chains of the new and of the old linked object, *)
(* and (fixHolder: repair 54f9d99) of the holder when it has calculated attributes; the system comes last.                *)
Chain(S, ch, fixHolder, listsServer) ==
    LET roots == {ch.new, ch.old} \cup (IF fixHolder /\ HasCalc(S, ch.obj) THEN {ch.obj} ELSE {})
    IN  Closure(S, roots, listsServer) \cup {SYSTEM}

Apply(S, ch) ==
    IF ch.obj \in S.sjobs THEN [S EXCEPT !.svcOf = [j \in S.sjobs |-> IF j = ch.obj THEN ch.new ELSE S.svcOf[j]]]
    ELSE [S EXCEPT !.srvOf = [s \in S.services |-> IF s = ch.obj THEN ch.new ELSE S.srvOf[s]]]

Moves(S) ==
    UNION {{[obj |-> j, old |-> S.svcOf[j], new |-> s] : s \in S.services \ {S.svcOf[j]}} : j \in S.sjobs} \cup
    UNION {{[obj |-> s, old |-> S.srvOf[s], new |-> v] : v \in S.servers \ {S.srvOf[s]}} : s \in S.services}
WellFormedMove(S, ch) ==
    \/ ch.obj \in S.sjobs /\ ch.new \in S.services /\ ch.old = S.svcOf[ch.obj] /\ (ch.new \in S.calc <=> ch.old \in S.calc)
    \/ ch.obj \in S.services /\ ch.new \in S.servers /\ ch.old = S.srvOf[ch.obj]

(* what the calculated attributes of an object are computed from, as far as links decide it *)
ReadsObj(S, o) ==
    CASE o \in S.sjobs    -> {S.svcOf[o]} \cup (IF S.svcOf[o] \in S.calc THEN {S.srvOf[S.svcOf[o]]} ELSE {})
      [] o \in S.services -> IF o \in S.calc THEN {S.srvOf[o]} ELSE {}
      [] o \in S.servers  -> JobsOn(S, o) \cup Installed(S, o)
      [] o \in Storages(S) -> UNION {JobsOn(S, v) \cup {v} : v \in {w \in S.servers : S.stoOf[w] = o}}
      [] o = NET          -> Jobs(S)
      [] o = SYSTEM       -> S.servers \cup Storages(S) \cup {NET}
      [] OTHER            -> {}

(* ... of which the CALCULATED values of the other object are read (a service and its jobs read the parameters of the     *)
(* server, which no link change alters, not what the server computes)                                                     *)
ValueReads(S, o) ==
    CASE o \in S.sjobs    -> {S.svcOf[o]} \cap S.calc
      [] o \in S.services -> {}
      [] OTHER            -> ReadsObj(S, o)

RECURSIVE Grow(_, _)
Grow(S2, A) ==
    LET N == A \cup {o \in Objs(S2) : ValueReads(S2, o) \cap A # {}}
    IN  IF N = A THEN A ELSE Grow(S2, N)

(* objects whose calculated values may differ after the change: those that read something else than before, and whatever *)
(* reads them; objects without calculated values of their own are left out                                                *)
Need(S, ch) ==
    LET S2 == Apply(S, ch)
        direct == {o \in Objs(S) : ReadsObj(S, o) # ReadsObj(S2, o)}
    IN  {o \in Grow(S2, direct) : o \notin S.services \/ o \in S.calc}

ChainCovers(S, fixHolder, listsServer) ==
    \A ch \in {m \in Moves(S) : WellFormedMove(S, m)} : Need(S, ch) \subseteq Chain(S, ch, fixHolder, listsServer)
=============================================================================
