-------------------------------- MODULE EFTime --------------------------------
(***************************************************************************)
(* Local time -> UTC conversion of an hourly usage series (C11).            *)
(* Times are integer minutes since 1970-01-01.  A zone is a sequence of     *)
(* segments [at |-> utc minute from which the offset applies, off |-> UTC   *)
(* offset in minutes], ordered by `at` (the first `at` is far in the past). *)
(*                                                                         *)
(* A local time L that exists once maps to L - offset in force.  A local    *)
(* time that occurs twice (clocks set back) maps to one of its two instants.*)
(* A local time that does not exist (clocks set forward, skipped day) is    *)
(* merged with a neighbour: the implementation (pandas shift_forward) moves *)
(* it to the next whole local hour and applies the offset in force before   *)
(* or after the transition; nothing else is admitted.  Values that land on  *)
(* the same instant are summed.                                             *)
(***************************************************************************)
EXTENDS Integers, Sequences, FiniteSets, TLC

SegEnd(zone, k) == IF k < Len(zone) THEN zone[k + 1].at ELSE 2000000000
(* the UTC instants whose local reading is L *)
Instants(zone, L) == {L - zone[k].off : k \in {x \in DOMAIN zone : zone[x].at <= L - zone[x].off /\ L - zone[x].off < SegEnd(zone, x)}}
(* the transition whose forward jump swallows L (L does not exist) *)
GapOf(zone, L) == CHOOSE k \in 1..(Len(zone) - 1) :
                     zone[k + 1].at + zone[k].off <= L /\ L < zone[k + 1].at + zone[k + 1].off
Allowed(zone, L) ==
    LET I == Instants(zone, L) IN
    IF I # {} THEN I
    ELSE LET k == GapOf(zone, L) IN {L + 60 - zone[k].off, L + 60 - zone[k + 1].off}

Choices(zone, locals) == {L \in locals : Cardinality(Allowed(zone, L)) > 1}
Fixed(zone, locals) == locals \ Choices(zone, locals)
The(S) == CHOOSE x \in S : TRUE

RECURSIVE SumV(_, _)
SumV(v, X) == IF X = {} THEN 0 ELSE LET x == CHOOSE y \in X : TRUE IN v[x] + SumV(v, X \ {x})

MinS(X) == CHOOSE x \in X : \A y \in X : x <= y
MaxS(X) == CHOOSE x \in X : \A y \in X : y <= x
(* the UTC series obtained with placement f: a function from the local times that have a choice to {1, 2} *)
(* (1: the earlier admitted instant, 2: the later one)                                                    *)
Placed(zone, v, f) ==
    LET locals == DOMAIN v
        at(L) == IF L \in DOMAIN f THEN (IF f[L] = 1 THEN MinS(Allowed(zone, L)) ELSE MaxS(Allowed(zone, L)))
                 ELSE The(Allowed(zone, L))
        instants == {at(L) : L \in locals}
    IN  [t \in instants |-> SumV(v, {L \in locals : at(L) = t})]

(* out is an admissible conversion of the local series v *)
Admissible(zone, v, out) ==
    LET ch == Choices(zone, DOMAIN v) IN
    IF Cardinality(ch) <= 10
    THEN \E f \in [ch -> {1, 2}] : Placed(zone, v, f) = out
    ELSE \* many skipped hours (a skipped day): totals and the support of what is left over
         LET fixed == Fixed(zone, DOMAIN v)
             det == [t \in {The(Allowed(zone, L)) : L \in fixed} |-> SumV(v, {L \in fixed : The(Allowed(zone, L)) = t})]
             R == [t \in DOMAIN out |-> out[t] - (IF t \in DOMAIN det THEN det[t] ELSE 0)]
         IN  /\ DOMAIN det \subseteq DOMAIN out
             /\ \A t \in DOMAIN R : R[t] >= 0
             /\ \A t \in DOMAIN R : R[t] > 0 => t \in UNION {Allowed(zone, L) : L \in ch}
             /\ SumV(R, DOMAIN R) = SumV(v, ch)

TotalPreserved(v, out) == SumV(v, DOMAIN v) = SumV(out, DOMAIN out)
=============================================================================
