SPECIFICATION Spec
CONSTANTS
  UPs = {u1, u2}
  UJs = {a1, a2}
  StepIds = {s1, s2}
  JobIds = {j1, j2}
  ServerIds = {v1, v2}
  StorageIds = {t1, t2}
  NetIds = {n1, n2}
  CountryIds = {c1}
  DeviceIds = {d1}
  MaxList = 1
  JFN = TRUE
  CANON = TRUE
  Groups = TRUE
  CheckUpdates = TRUE
  CheckGraph = FALSE
SYMMETRY Symm
INVARIANT NoStale
