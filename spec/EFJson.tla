-------------------------------- MODULE EFJson --------------------------------
(***************************************************************************)
(* Saving a system to JSON and loading it back (C13), as functions on an    *)
(* abstract state.  A state is a record                                     *)
(*   [scalars : name -> integer,            quantities, exported exactly    *)
(*    hourly  : name -> Seq(integer),       hourly inputs in 1e-4 units     *)
(*    links   : name -> Seq(name)]          ordered links                   *)
(* A file (Doc) has the same shape.  system_to_json writes hourly values    *)
(* rounded to 3 decimals (multiples of 10 in 1e-4 units, ties to even as    *)
(* Python's round does on exactly representable halves is not relied on:    *)
(* inputs are kept off the ties); json_to_system reads the file as it is    *)
(* and recomputes every calculated attribute from the inputs it read.       *)
(***************************************************************************)
EXTENDS Integers, Sequences, FiniteSets, TLC

RAbs(x) == IF x < 0 THEN -x ELSE x
(* nearest multiple of 10 (3 decimals of a value given in 1e-4 units); never called on a tie *)
Round3(v) == LET a == RAbs(v) IN (IF v < 0 THEN -1 ELSE 1) * (((a + 5) \div 10) * 10)
IsTie(v) == RAbs(v) % 10 = 5
RoundSeq(s) == [k \in DOMAIN s |-> Round3(s[k])]

Save(S) == [scalars |-> S.scalars, hourly |-> [n \in DOMAIN S.hourly |-> RoundSeq(S.hourly[n])], links |-> S.links]
Load(D) == [scalars |-> D.scalars, hourly |-> D.hourly, links |-> D.links]

(* what the user may rely on *)
LoadedIsRounded(S) == Load(Save(S)) = [S EXCEPT !.hourly = [n \in DOMAIN S.hourly |-> RoundSeq(S.hourly[n])]]
SecondExportEqualsFirst(S) == Save(Load(Save(S))) = Save(S)
OnLatticeRoundTripsExactly(S) ==
    (\A n \in DOMAIN S.hourly : \A k \in DOMAIN S.hourly[n] : S.hourly[n][k] % 10 = 0) => Load(Save(S)) = S
=============================================================================
