------------------------------ MODULE Trace_Edit ------------------------------
(***************************************************************************)
(* Recorded executions of the real code for the properties about what an    *)
(* operation may and may not change (C14, C15, C18, C19).  The state of a    *)
(* history is: mode ("ok" or "failed" after a recomputation that raised)    *)
(* and the edit that failed.  Events:                                       *)
(*  Create    T, order in which objects computed their attributes           *)
(*  Recompute objects recomputed explicitly, in the order given             *)
(*  Observe   a read-only use (str, explain, to_json, system_to_json, plot) *)
(*  Invalid   an invalid value at construction / assignment / grouped update*)
(*  Failed    an accepted edit whose recomputation raised                   *)
(*  Recovered the previous value re-assigned after a failure                *)
(*  Edit      an ordinary accepted edit (compared with a rebuild)           *)
(*  Sibling   the same abstract model built another way                     *)
(* Each event carries what the harness measured on the real objects         *)
(* (differences against the state before, against a rebuild, ...).          *)
(***************************************************************************)
EXTENDS EFCore, Json

CONSTANTS TraceFile, JFN
Events == ndJsonDeserialize(TraceFile)
N == Len(Events)
VARIABLES i, mode
vars == <<i, mode>>

Topo(j) ==
    [ups |-> SeqSet(j.ups), ujs |-> SeqSet(j.ujs), steps |-> SeqSet(j.steps), jobs |-> SeqSet(j.jobs),
     servers |-> SeqSet(j.servers), storages |-> SeqSet(j.storages), nets |-> SeqSet(j.nets),
     countries |-> SeqSet(j.countries), devices |-> SeqSet(j.devices),
     uj |-> j.uj, net |-> j.net, country |-> j.country, devs |-> j.devs,
     stepsOf |-> j.stepsOf, jobsOf |-> j.jobsOf, server |-> j.server, storage |-> j.storage,
     sysups |-> j.sysups]
Line(kind, e, clause, data) ==
    PrintT(kind \o "|" \o ToString(e.tid) \o "|" \o ToString(e.seq) \o "|" \o clause \o "|" \o ToString(data))
Fail(e, clause, data) == Line("FAIL", e, clause, data)
ModeOf(t) == IF t \in DOMAIN mode THEN mode[t] ELSE "ok"
SetMode(t, m) == [x \in DOMAIN mode \cup {t} |-> IF x = t THEN m ELSE mode[x]]

Check(e) ==
    CASE e.ev = "Create" ->
           LET T == Topo(e.T)
               left == StaleAfterOrder(T, e.computed, NeverComputed(T)) \cap Relevant(T)
           IN  /\ IF left # {} THEN Fail(e, "creation-order-leaves-values-computed-from-stale-operands", left) ELSE TRUE
               /\ IF e.second_pass_changed # <<>> THEN Fail(e, "not-a-fixed-point-after-creation", e.second_pass_changed) ELSE TRUE
      [] e.ev = "Recompute" ->
           IF e.changed # <<>> THEN Fail(e, "recomputation-without-input-change-alters-values", <<e.objs, e.changed>>) ELSE TRUE
      [] e.ev = "Observe" ->
           /\ IF e.inputs_changed # <<>> THEN Fail(e, "observation-alters-an-input:" \o e.kind, e.inputs_changed) ELSE TRUE
           /\ IF e.calc_changed # <<>> THEN Fail(e, "observation-alters-a-calculated-value:" \o e.kind, e.calc_changed) ELSE TRUE
      [] e.ev = "Invalid" ->
           /\ IF e.exc = "none" THEN Fail(e, "invalid-value-accepted:" \o e.where, <<e.cls, e.attr, e.what>>) ELSE TRUE
           /\ IF e.changed # <<>> THEN Fail(e, "rejected-edit-changed-the-model:" \o e.where, <<e.cls, e.attr, e.what, e.changed>>) ELSE TRUE
      [] e.ev = "Failed" ->
           IF ModeOf(e.tid) = "failed" /\ ~e.allow_nested THEN Fail(e, "harness-protocol", <<>>) ELSE TRUE
      [] e.ev = "Recovered" ->
           /\ IF e.exc # "none" THEN Fail(e, "re-assigning-the-previous-value-raises", e.exc) ELSE TRUE
           /\ IF e.differs_from_before_failure # <<>> THEN Fail(e, "model-not-restored-after-recovery", e.differs_from_before_failure) ELSE TRUE
           /\ IF e.stale # <<>> THEN Fail(e, "recovered-model-differs-from-a-rebuilt-one", e.stale) ELSE TRUE
      [] e.ev = "Edit" ->
           IF e.stale # <<>> THEN Fail(e, "edit-after-recovery-differs-from-a-rebuilt-system", <<e.edit_kind, e.stale>>) ELSE TRUE
      [] e.ev = "Sibling" ->
           IF e.differs # <<>> THEN Fail(e, "results-depend-on:" \o e.variant, e.differs) ELSE TRUE

Step ==
    /\ i < N /\ i' = i + 1
    /\ LET e == Events[i + 1] IN
       /\ Check(e)
       /\ mode' = CASE e.ev = "Failed" -> SetMode(e.tid, "failed")
                    [] e.ev = "Recovered" -> SetMode(e.tid, "ok")
                    [] OTHER -> mode
Init == i = 0 /\ mode = <<>>
Next == Step
Spec == Init /\ [][Next]_vars
AllConsumed == TLCGet("stats").diameter - 1 = N
=============================================================================
