----------------------------- MODULE Trace_Builders -----------------------------
(***************************************************************************)
(* Service and cloud-server builders are faithful shorthand (C17).          *)
(* Rules (the builders' stated rules, as integer arithmetic):               *)
(*   video streaming   bitrate [bit/s]  = pixels x bits-per-pixel x frames/s*)
(*                     data [bit]       = bitrate x duration [s]            *)
(*                     request duration = video duration                    *)
(*                     CPU [1e-6 core]  = cost [1e-6 core per Gbit/s... ]   *)
(*                     RAM              = buffer per user                   *)
(*   generative AI     token weights = tokens x bits per token, data = 100 kB + weights,                 *)
(*                     duration = tokens x (alpha x active + beta), GPUs = factor x active x bits / RAM per GPU, *)
(*                     service base RAM = factor x total x bits             *)
(*   web application / cloud server: the table row / API response is an input, the job / server carries it *)
(* Events:                                                                  *)
(*   VideoRule  integers: pixels, bpp_milli, fps, dur_s, and the derived bitrate_bps, data_bit, reqdur_s    *)
(*   Approx     a derived parameter (lhs) and the rule evaluated on the inputs read from the objects (rhs), *)
(*              both as 7-significant-digit integers with a common exponent                                  *)
(*   Rule       a derived parameter (got) and the named inputs of its rule (f), as 4-digit decimal floats: *)
(*              TLC evaluates the rule itself (RuleValue) and requires agreement within 1 %                 *)
(*   Twin       differences between the builder model and the plain model carrying the derived parameters    *)
(*   Refresh    differences between a live builder model after an input edit and a rebuilt one               *)
(***************************************************************************)
EXTENDS Integers, Sequences, FiniteSets, TLC, Json, EFDecimal
CONSTANTS TraceFile
Events == ndJsonDeserialize(TraceFile)
N == Len(Events)
VARIABLES i
vars == <<i>>
Line(kind, e, clause, data) ==
    PrintT(kind \o "|" \o ToString(e.tid) \o "|" \o ToString(e.seq) \o "|" \o clause \o "|" \o ToString(data))
Fail(e, clause, data) == Line("FAIL", e, clause, data)
Abs(x) == IF x < 0 THEN -x ELSE x

VideoBitrate(pixels, bppMilli, fps) == (pixels * bppMilli * fps) \div 1000          \* bit/s
VideoData(bitrate, durS) == bitrate * durS                                          \* bit

(* the builders' rules, evaluated by TLC on the inputs read from the real objects *)
RuleValue(rule, f) ==
    CASE rule = "genai-token-weights" -> DMul(f.tokens, f.bits_per_token)
      [] rule \in {"genai-data-transferred", "genai-data-stored"} -> DAdd(DInt(800000), DMul(f.tokens, f.bits_per_token))     \* 100 kB
      [] rule = "genai-duration" -> DMul(f.tokens, DAdd(DMul(f.alpha, f.active), f.beta))
      [] rule = "genai-gpus" -> DDiv(DMul(DMul(f.factor, f.active), f.bits), f.ram_per_gpu)
      [] rule = "genai-base-ram" -> DMul(DMul(f.factor, f.total), f.bits)
      [] rule = "video-cpu" -> DDiv(DMul(f.cost, f.bitrate), D(8, 9))                       \* cost per (GB/s), bitrate in bit/s
      [] rule = "video-data" -> DMul(DMul(DMul(f.pixels, f.bpp), f.fps), f.duration)

Check(e) ==
    CASE e.ev = "VideoRule" ->
           /\ IF e.bitrate_bps # VideoBitrate(e.pixels, e.bpp_milli, e.fps)
              THEN Fail(e, "video-bitrate-rule", <<"code", e.bitrate_bps, "rule", VideoBitrate(e.pixels, e.bpp_milli, e.fps)>>) ELSE TRUE
           /\ IF e.data_bit # VideoData(VideoBitrate(e.pixels, e.bpp_milli, e.fps), e.dur_s)
              THEN Fail(e, "video-data-transferred-rule", <<"code", e.data_bit, "rule", VideoData(VideoBitrate(e.pixels, e.bpp_milli, e.fps), e.dur_s)>>) ELSE TRUE
           /\ IF e.reqdur_s # e.dur_s THEN Fail(e, "video-request-duration-rule", <<e.reqdur_s, e.dur_s>>) ELSE TRUE
           /\ IF e.ram_mb # e.buffer_mb THEN Fail(e, "video-ram-rule", <<e.ram_mb, e.buffer_mb>>) ELSE TRUE
      [] e.ev = "Approx" ->
           IF Abs(e.lhs - e.rhs) > 3 THEN Fail(e, "derived-parameter-rule:" \o e.rule, <<"code", e.lhs, "rule", e.rhs, "x10^", e.exp>>) ELSE TRUE
      [] e.ev = "Rule" ->
           IF ~DClose(e.got, RuleValue(e.rule, e.f), 100)
           THEN Fail(e, "derived-parameter-rule:" \o e.rule, <<"code", e.got, "rule", RuleValue(e.rule, e.f)>>) ELSE TRUE
      [] e.ev = "Twin" ->
           IF e.differs # <<>> THEN Fail(e, "builder-model-differs-from-plain-model:" \o e.builder, e.differs) ELSE TRUE
      [] e.ev = "Refresh" ->
           IF e.differs # <<>> THEN Fail(e, "derived-parameters-not-refreshed:" \o e.builder \o "." \o e.input, e.differs) ELSE TRUE
Step == i < N /\ i' = i + 1 /\ Check(Events[i + 1])
Init == i = 0
Next == Step
Spec == Init /\ [][Next]_vars
AllConsumed == TLCGet("stats").diameter - 1 = N
=============================================================================
