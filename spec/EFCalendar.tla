------------------------------ MODULE EFCalendar ------------------------------
(***************************************************************************)
(* Proleptic Gregorian calendar arithmetic on integers, and the hourly      *)
(* series builders of efootprint/builders/time_builders.py (C20).           *)
(* A time stamp is an integer number of hours since 1970-01-01 00:00        *)
(* (naive, as the builders produce); a series is a sequence of              *)
(* <<hour, value>> pairs.                                                   *)
(***************************************************************************)
EXTENDS Integers, Sequences, FiniteSets, TLC

(* days since 1970-01-01 -> <<year, month, day>>  (days >= 0) *)
CivilFromDays(z0) ==
    LET z == z0 + 719468
        era == z \div 146097
        doe == z - era * 146097
        yoe == (doe - doe \div 1460 + doe \div 36524 - doe \div 146096) \div 365
        y == yoe + era * 400
        doy == doe - (365 * yoe + yoe \div 4 - yoe \div 100)
        mp == (5 * doy + 2) \div 153
        d == doy - (153 * mp + 2) \div 5 + 1
        m == IF mp < 10 THEN mp + 3 ELSE mp - 9
    IN  <<IF m <= 2 THEN y + 1 ELSE y, m, d>>

DaysFromCivil(y0, m, d) ==
    LET y == IF m <= 2 THEN y0 - 1 ELSE y0
        era == y \div 400
        yoe == y - era * 400
        doy == (153 * (IF m > 2 THEN m - 3 ELSE m + 9) + 2) \div 5 + d - 1
        doe == yoe * 365 + yoe \div 4 - yoe \div 100 + doy
    IN  era * 146097 + doe - 719468

IsLeap(y) == (y % 4 = 0 /\ y % 100 # 0) \/ y % 400 = 0
DaysInMonth(y, m) == IF m = 2 THEN (IF IsLeap(y) THEN 29 ELSE 28) ELSE IF m \in {4, 6, 9, 11} THEN 30 ELSE 31
Weekday(days) == (days + 3) % 7                  \* Monday = 0 (1970-01-01 was a Thursday)
DayOfYear(days) == days - DaysFromCivil(CivilFromDays(days)[1], 1, 1) + 1
HourOfDay(h) == h % 24
DayOf(h) == h \div 24

(********************************* builders ********************************)
FromList(list, start) == [n \in 1..Len(list) |-> <<start + n - 1, list[n]>>]

(* create_hourly_usage_from_frequency: one value per hour from start to start + span (inclusive)            *)
(* spanHours: whole hours of the timespan; days / hours: the sets of active days and hours (after defaults) *)
Matches(h, freq, days, hours) ==
    LET d == DayOf(h)
        c == CivilFromDays(d)
    IN  /\ HourOfDay(h) \in hours
        /\ CASE freq = "daily" -> TRUE
             [] freq = "weekly" -> Weekday(d) \in days
             [] freq = "monthly" -> c[3] \in days
             [] freq = "yearly" -> DayOfYear(d) \in days

FromFrequency(spanHours, volume, freq, days, hours, start) ==
    [n \in 1..(spanHours + 1) |-> <<start + n - 1, IF Matches(start + n - 1, freq, days, hours) THEN volume ELSE 0>>]

DefaultDays(freq) == IF freq = "weekly" THEN {0} ELSE {1}
DefaultHours == {0}

(************************ well-formedness of a result **********************)
Contiguous(s, start) == \A n \in DOMAIN s : s[n][1] = start + n - 1
SumOver(s, H) ==        \* sum of the values whose hour is in H
    LET idx == {n \in DOMAIN s : s[n][1] \in H}
        RECURSIVE Sum(_)
        Sum(X) == IF X = {} THEN 0 ELSE LET x == CHOOSE y \in X : TRUE IN s[x][2] + Sum(X \ {x})
    IN  Sum(idx)
=============================================================================
