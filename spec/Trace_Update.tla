----------------------------- MODULE Trace_Update -----------------------------
(***************************************************************************)
(* Validation of executions recorded from the real e-footprint code         *)
(* against EFCore.  Each line of the ndjson trace is one event:             *)
(*   Create  : a system has been built; T = its topology                    *)
(*   Update  : one accepted edit (single assignment, list operation or      *)
(*             grouped ModelingUpdate): topology before (T) and after (T2), *)
(*             the change list, the object chain and attribute chain the    *)
(*             implementation really used (from the hooks), the slots whose *)
(*             value really changed, the slots that differ from a system    *)
(*             rebuilt from scratch, and whether the before/after totals    *)
(*             bookkeeping is right.                                        *)
(*   Refused : an edit the code refused while recomputing (capacity check): *)
(*             the slots whose value changed all the same, the slots that   *)
(*             differ from a rebuilt system.                                *)
(* The trace specification consumes the events in order; for every event    *)
(* every clause is evaluated and a line <<"FAIL", tid, seq, clause, ...>>   *)
(* or <<"NOTE", ...>> is printed, so verdicts are total.                    *)
(***************************************************************************)
EXTENDS EFCore, Json

CONSTANTS TraceFile, JFN, CANON

Events == ndJsonDeserialize(TraceFile)
N == Len(Events)

VARIABLES i, cur       \* position in the trace; cur: tid -> current topology
vars == <<i, cur>>

Topo(j) ==
    [ups |-> SeqSet(j.ups), ujs |-> SeqSet(j.ujs), steps |-> SeqSet(j.steps), jobs |-> SeqSet(j.jobs),
     servers |-> SeqSet(j.servers), storages |-> SeqSet(j.storages), nets |-> SeqSet(j.nets),
     countries |-> SeqSet(j.countries), devices |-> SeqSet(j.devices),
     uj |-> j.uj, net |-> j.net, country |-> j.country, devs |-> j.devs,
     stepsOf |-> j.stepsOf, jobsOf |-> j.jobsOf, server |-> j.server, storage |-> j.storage,
     sysups |-> j.sysups]

Change(c) ==
    IF c.kind = "input" THEN [kind |-> "input", slot |-> <<c.slot[1], c.slot[2], c.slot[3]>>]
    ELSE [kind |-> c.kind, obj |-> c.obj, attr |-> c.attr, old |-> c.old, new |-> c.new]

Slot3(x) == <<x[1], x[2], x[3]>>
Item2(x) == <<x[1], x[2]>>

Line(kind, e, clause, data) ==
    PrintT(kind \o "|" \o ToString(e.tid) \o "|" \o ToString(e.seq) \o "|" \o clause \o "|" \o ToString(data))
Fail(e, clause, data) == Line("FAIL", e, clause, data)
Note(e, clause, data) == Line("NOTE", e, clause, data)

CheckUpdate(e) ==
    LET T == Topo(e.T)
        T2 == Topo(e.T2)
        changes == [k \in DOMAIN e.changes |-> Change(e.changes[k])]
        CI == {changes[k].slot : k \in {x \in DOMAIN changes : changes[x].kind = "input"}}
        chain == [k \in DOMAIN e.attr_chain |-> Item2(e.attr_chain[k])]
        realObj == SeqSet(e.obj_chain)
        specObj == ObjChain(T, changes, JFN)
        affected == TrueAffected(T, T2, CI)
        rel == Relevant(T2)
        predicted == StaleAfterObserved(T, T2, changes, {}, chain) \cap rel
        realStale == {Slot3(x) : x \in SeqSet(e.stale)}
        realChanged == {Slot3(x) : x \in SeqSet(e.changed)} \cap CalcSlots(T2)
        specItems == DOMAIN ChainPositions(T, changes, JFN, CANON)
    IN
    /\ IF e.tid \in DOMAIN cur /\ cur[e.tid] # T THEN Fail(e, "continuity", <<>>) ELSE TRUE
    /\ IF realStale # {} THEN Fail(e, "stale-vs-rebuild", realStale) ELSE TRUE
    /\ IF predicted # {} THEN Fail(e, "stale-along-observed-chain", predicted) ELSE TRUE
    /\ IF \E a, b \in DOMAIN chain : a # b /\ chain[a] = chain[b]
       THEN Fail(e, "chain-lists-item-twice", <<>>) ELSE TRUE
    /\ IF ~e.prev_totals_ok THEN Fail(e, "previous-totals", <<>>) ELSE TRUE
    /\ IF ~e.init_totals_ok THEN Fail(e, "initial-totals", <<>>) ELSE TRUE
    \* divergence notes (not violations): they say that EFCore no longer describes the code exactly.
    \* Objects that were not reachable before the edit may never have been computed: they are left out.
    /\ LET known == {s \in realChanged : s[1] \in Reachable(T)} IN
       IF ~(known \subseteq affected) THEN Note(e, "changed-outside-spec-reads", known \ affected) ELSE TRUE
    /\ IF ~e.composite /\ ~(specObj \subseteq realObj)
       THEN Note(e, "object-chain-misses", specObj \ realObj) ELSE TRUE
    \* one public edit is one update transaction: exactly one ModelingUpdate carries changes; `x += l`, `x *= n` and the
    \* creation of a usage pattern inside a system build a second, empty one (the re-assignment of the mutated list)
    /\ LET begins == IF e.edit_kind \in {"listop:iadd", "listop:imul", "add_up"} THEN 2 ELSE 1 IN
       IF e.n_nonempty_updates # 1 \/ e.n_update_begin # begins
       THEN Note(e, "edit-is-not-exactly-one-update", <<e.edit_kind, e.n_update_begin, e.n_nonempty_updates>>) ELSE TRUE
    /\ LET missing == {it \in specItems \ SeqSet(chain) : it[1] \in Reachable(T)} IN
       IF ~e.composite /\ missing # {} THEN Note(e, "attr-chain-misses", missing) ELSE TRUE

(* an edit the code refused (a capacity check failed while the update was being recomputed): EFSim's Update(failAt) leaves *)
(* the state as it was (AllOrNothing), so no value may have changed and nothing may differ from a rebuilt system            *)
CheckRefused(e) ==
    LET T == Topo(e.T) IN
    /\ IF e.tid \in DOMAIN cur /\ cur[e.tid] # T THEN Fail(e, "continuity", <<>>) ELSE TRUE
    /\ IF Len(e.changed) # 0 THEN Fail(e, "refused-edit-changed-a-value", {Slot3(x) : x \in SeqSet(e.changed)}) ELSE TRUE
    /\ IF Len(e.stale) # 0 THEN Fail(e, "stale-vs-rebuild-after-refused-edit", {Slot3(x) : x \in SeqSet(e.stale)}) ELSE TRUE

Step ==
    /\ i < N
    /\ i' = i + 1
    /\ LET e == Events[i + 1] IN
       CASE e.ev = "Create" -> cur' = [t \in DOMAIN cur \cup {e.tid} |-> IF t = e.tid THEN Topo(e.T) ELSE cur[t]]
         [] e.ev = "Update" -> /\ CheckUpdate(e)
                               /\ cur' = [t \in DOMAIN cur \cup {e.tid} |->
                                            IF t = e.tid THEN Topo(e.T2) ELSE cur[t]]
         [] e.ev = "Refused" -> CheckRefused(e) /\ UNCHANGED cur
         [] OTHER -> UNCHANGED cur

Init == i = 0 /\ cur = <<>>
Next == Step
Spec == Init /\ [][Next]_vars

(* the whole trace has been consumed *)
Consumed == i = N
AllConsumed == TLCGet("stats").diameter - 1 = N
=============================================================================
