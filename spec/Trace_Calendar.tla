----------------------------- MODULE Trace_Calendar -----------------------------
(* Validation of recorded calls of the hourly-series builders (C20) against EFCalendar. *)
EXTENDS EFCalendar, Json

CONSTANTS TraceFile
Events == ndJsonDeserialize(TraceFile)
N == Len(Events)
VARIABLES i
vars == <<i>>

SeqSet(s) == {s[n] : n \in DOMAIN s}
Line(kind, e, clause, data) ==
    PrintT(kind \o "|" \o ToString(e.tid) \o "|" \o ToString(e.seq) \o "|" \o clause \o "|" \o ToString(data))
Fail(e, clause, data) == Line("FAIL", e, clause, data)

Got(e) == [n \in DOMAIN e.idx |-> <<e.idx[n], e.vals[n]>>]

Same(e, want) ==
    LET got == Got(e) IN
    IF got = want THEN TRUE
    ELSE Fail(e, "series-differs:" \o e.fn,
              IF Len(got) # Len(want) THEN <<"length", Len(got), "expected", Len(want)>>
              ELSE LET n == CHOOSE x \in DOMAIN got : got[x] # want[x] /\ \A y \in 1..(x - 1) : got[y] = want[y]
                   IN  <<"first difference at position", n, "code", got[n], "spec", want[n]>>)

Abs(x) == IF x < 0 THEN -x ELSE x
IndexOK(e, n) ==
    IF Len(e.idx) # n \/ \E p \in DOMAIN e.idx : e.idx[p] # e.start + p - 1
    THEN Fail(e, "index-not-one-per-hour-from-start:" \o e.fn, <<"length", Len(e.idx), "expected", n>>) ELSE TRUE

Check(e) ==
    /\ IF e.unit_out # e.unit_in THEN Fail(e, "unit-differs", <<e.unit_in, e.unit_out>>) ELSE TRUE
    \* every time stamp is a whole number of hours after the requested start date (which may carry minutes and seconds)
    /\ IF Len(e.idx) > 0 /\ SeqSet(e.idx_sub) # {e.start_sub}
       THEN Fail(e, "time-stamps-not-at-the-minutes-of-the-start-date:" \o e.fn, <<"start", e.start_sub, "series", e.idx_sub>>) ELSE TRUE
    \* the caller's span Quantity after the call (and after the builder it was given to before): a builder that rewrites it (another
    \* unit, same duration) breaks nothing by itself -- a divergence note; what the next builder makes of it is judged by its clauses
    /\ IF "span_left" \in DOMAIN e /\ e.span_left # e.span_written
       THEN PrintT("NOTE|" \o ToString(e.tid) \o "|" \o ToString(e.seq) \o "|span-argument-rewritten-by-a-builder|" \o e.span_written
                   \o " -> " \o e.span_left \o " (given before to: " \o e.span_used_before_by \o ")") ELSE TRUE
    /\ IF e.off_lattice THEN Fail(e, "value-is-not-a-whole-number-where-the-rule-gives-one:" \o e.fn, <<>>) ELSE TRUE
    /\ CASE e.fn = "list" -> Same(e, FromList(e.list, e.start))
         [] e.fn = "frequency" ->
              Same(e, FromFrequency(e.span, e.volume, e.freq,
                                    IF e.days_given THEN SeqSet(e.days) ELSE DefaultDays(e.freq),
                                    IF e.hours_given THEN SeqSet(e.hours) ELSE DefaultHours, e.start))
         [] e.fn = "daily_volume" ->
              \* the volume is shared between the DISTINCT chosen hours (a list may name an hour twice)
              /\ Same(e, FromFrequency(e.span, e.volume \div Cardinality(SeqSet(e.hours)), "daily", {}, SeqSet(e.hours), e.start))
              /\ \A day \in DayOf(e.start)..DayOf(e.start + e.span) :
                    (day * 24 >= e.start /\ day * 24 + 23 <= e.start + e.span) =>
                       IF SumOver(Got(e), {day * 24 + h : h \in 0..23}) # e.volume
                       THEN Fail(e, "daily-volume-not-reached", day) ELSE TRUE
         [] e.fn = "linear" ->
              /\ IndexOK(e, e.n)
              /\ IF \E p \in DOMAIN e.vals : e.vals[p] # e.v0 * (e.n - 1) + (p - 1) * (e.v1 - e.v0)
                 THEN Fail(e, "linear-growth-values", <<>>) ELSE TRUE
         [] e.fn = "sinus" ->
              /\ IndexOK(e, e.n)
              /\ IF \E p \in DOMAIN e.vals : Abs(e.vals[p]) > e.amplitude * 1000000 + 1 THEN Fail(e, "sinus-above-amplitude", <<>>) ELSE TRUE
              /\ IF e.vals[1] # 0 THEN Fail(e, "sinus-does-not-start-at-zero", e.vals[1]) ELSE TRUE
              /\ IF \E p \in DOMAIN e.vals : p + e.period \in DOMAIN e.vals /\ Abs(e.vals[p] - e.vals[p + e.period]) > 2
                 THEN Fail(e, "sinus-not-periodic", <<>>) ELSE TRUE
         [] e.fn = "daily_fluct" ->
              /\ IndexOK(e, e.n)
              /\ IF \E p \in DOMAIN e.vals : e.vals[p] < 1000000 - e.scale - 1 \/ e.vals[p] > 1000000 + e.scale + 1
                 THEN Fail(e, "daily-fluctuation-out-of-bounds", <<>>) ELSE TRUE
              /\ IF \E p \in DOMAIN e.vals : HourOfDay(e.idx[p]) = e.min_hour /\ Abs(e.vals[p] - (1000000 - e.scale)) > 2
                 THEN Fail(e, "daily-fluctuation-minimum-misplaced", <<>>) ELSE TRUE
              /\ IF \E p \in DOMAIN e.vals : p + 24 \in DOMAIN e.vals /\ Abs(e.vals[p] - e.vals[p + 24]) > 2
                 THEN Fail(e, "daily-fluctuation-not-daily", <<>>) ELSE TRUE
         [] e.fn = "random" ->
              /\ IndexOK(e, e.n)
              /\ IF \E p \in DOMAIN e.vals : e.vals[p] < e.lo \/ e.vals[p] >= e.hi THEN Fail(e, "random-out-of-range", <<>>) ELSE TRUE

Step == i < N /\ i' = i + 1 /\ Check(Events[i + 1])
Init == i = 0
Next == Step
Spec == Init /\ [][Next]_vars
AllConsumed == TLCGet("stats").diameter - 1 = N
=============================================================================
