------------------------------ MODULE MC_Numeric ------------------------------
(***************************************************************************)
(* Theorems of C02, C03, C04 and C12 on the lattice transcription of the    *)
(* update functions (EFNumeric), checked by TLC over small input domains:   *)
(* every initial state is one combination of inputs, every invariant is a   *)
(* theorem.  The topology is a parameter chosen among a few shapes          *)
(* (one or two usage patterns, a job listed 0..2 times in up to two steps,  *)
(* one or two jobs on the server, writing and deleting jobs).               *)
(***************************************************************************)
EXTENDS EFNumeric

CONSTANTS Family,    \* "usage" | "sizing" | "scale" : which input domain is enumerated
          Large      \* TRUE: the larger input domains (thorough tier)

VARIABLES T, I, k, drv, phase
vars == <<T, I, k, drv, phase>>

Objs == [ups |-> {"u1", "u2"}, ujs |-> {"a1"}, steps |-> {"s1", "s2"}, jobs |-> {"j1", "j2"},
         servers |-> {"v1"}, storages |-> {"t1"}, nets |-> {"n1"}, countries |-> {"c1", "c2"}, devices |-> {"d1"}]

Topologies(jobLists, stepLists, upSets) ==
    {[ups |-> U, ujs |-> Objs.ujs, steps |-> Objs.steps, jobs |-> Objs.jobs, servers |-> Objs.servers,
      storages |-> Objs.storages, nets |-> Objs.nets, countries |-> Objs.countries, devices |-> Objs.devices,
      uj |-> [u \in U |-> "a1"], net |-> [u \in U |-> "n1"],
      country |-> [u \in U |-> IF u = "u1" THEN "c1" ELSE "c2"], devs |-> [u \in U |-> <<"d1">>],
      stepsOf |-> [a \in Objs.ujs |-> sl], jobsOf |-> [s \in Objs.steps |-> IF s = "s1" THEN jl[1] ELSE jl[2]],
      server |-> [j \in Objs.jobs |-> "v1"], storage |-> [v \in Objs.servers |-> "t1"],
      sysups |-> IF U = {"u1"} THEN <<"u1">> ELSE <<"u1", "u2">>] :
        jl \in jobLists, sl \in stepLists, U \in upSets}

Sv(type, fixed, availRam, pue, ci) ==
    [type |-> type, fixed |-> fixed, fabrate |-> 600, power |-> 300, idle |-> 50, pue |-> pue, ci |-> ci,
     util |-> 100, ram |-> availRam, baseram |-> 0, cpu |-> 120, basecpu |-> 0]
St(repl, durh, base, cap, idle) ==
    [repl |-> repl, durh |-> durh, base |-> base, cap |-> cap, fabrate |-> 20, power |-> 2, idle |-> idle, fixed |-> 0]
Job(dur, dt, ds, ram) == [dur |-> dur, dt |-> dt, ds |-> ds, ram |-> ram, cpu |-> 1]
Up(start, vals) == [start |-> start, vals |-> vals]

Inputs(stepMin, jobs, sv, st, ups, tz2) ==
    [t |-> [s \in Objs.steps |-> IF s = "s1" THEN stepMin[1] ELSE stepMin[2]],
     job |-> [j \in Objs.jobs |-> IF j = "j1" THEN jobs[1] ELSE jobs[2]],
     sv |-> [v \in Objs.servers |-> sv], st |-> [t \in Objs.storages |-> st],
     net |-> [n \in Objs.nets |-> 2], ci |-> [c \in Objs.countries |-> IF c = "c1" THEN 10 ELSE 50],
     tz |-> [c \in Objs.countries |-> IF c = "c1" THEN 0 ELSE tz2],
     dev |-> [d \in Objs.devices |-> [power |-> 50, fabrate |-> 150]],
     up |-> [u \in {"u1", "u2"} |-> IF u = "u1" THEN ups[1] ELSE ups[2]]]

StartSeqs == {<<1>>, <<2, 0, 1>>, <<0, 3>>, <<1, 1, 1, 2>>}

UsageInit ==
    /\ T \in Topologies({<<<<"j1">>, <<>>>>, <<<<"j1", "j1">>, <<"j1">>>>, <<<<"j2">>, <<"j1", "j2">>>>, <<<<>>, <<"j1">>>>},
                        {<<"s1">>, <<"s1", "s2">>, <<"s2", "s1", "s1">>, <<"s2", "s2">>}, {{"u1"}, {"u1", "u2"}})
    /\ \E sm \in {<<0, 0>>, <<15, 45>>, <<60, 30>>, <<45, 150>>, <<75, 60>>}, dur \in {1, 3, 4, 5, 10},
          v1 \in StartSeqs, v2 \in {<<1>>, <<0, 2, 2>>}, off \in {0, 7}, tz2 \in {0, 2, -5} :
         I = Inputs(sm, <<Job(dur, 60, 12, 1), Job(4, 6, 0, 2)>>, Sv("autoscaling", 0, 120, 1, 10),
                    St(1, 1000, 0, 600, 0), <<Up(100, v1), Up(100 + off, v2)>>, tz2)
    /\ k = 1 /\ drv = "none"

SizingInit ==
    /\ T \in Topologies({<<<<"j1">>, <<"j2">>>>, <<<<"j1", "j2">>, <<>>>>},
                        IF Large THEN {<<"s1">>, <<"s1", "s2">>} ELSE {<<"s1", "s2">>}, {{"u1"}, {"u1", "u2"}})
    /\ \E type \in {"autoscaling", "serverless", "on-premise"}, fixed \in {0, 1, 3}, avail \in {24, 120},
          ram \in {1, 40}, ds1 \in (IF Large THEN {0, 6, 600} ELSE {0, 600}), ds2 \in (IF Large THEN {-6, 0, 60} ELSE {-6, 60}),
          repl \in (IF Large THEN {1, 3} ELSE {3}), durh \in {1, 2, 1000},
          base \in {0, 600}, cap \in (IF Large THEN {600, 6000} ELSE {600}), v1 \in {<<2, 0, 1>>, <<5, 5>>},
          off \in (IF Large THEN {0, 1, 9} ELSE {0, 9}) :
         /\ (fixed > 0 => type = "on-premise")
         /\ I = Inputs(<<60, 15>>, <<Job(4, 6, ds1, ram), Job(6, 6, ds2, 1)>>, Sv(type, fixed, avail, 1, 10),
                       St(repl, durh, base, cap, 1), <<Up(100, v1), Up(100 + off, <<1, 3>>)>>, 0)
    /\ k = 1 /\ drv = "none"

Drivers == {"pue", "server-ci", "bei", "dt", "country-ci", "device-power", "device-fabrate", "server-fabrate",
            "storage-fabrate", "traffic"}

ScaleInit ==
    /\ T \in Topologies({<<<<"j1">>, <<"j2">>>>, <<<<"j1", "j1">>, <<>>>>}, {<<"s1">>, <<"s1", "s2">>}, {{"u1"}, {"u1", "u2"}})
    /\ \E type \in {"autoscaling", "serverless", "on-premise"}, ds1 \in {0, 60}, durh \in {1, 1000}, idle \in {0, 1},
          v1 \in {<<2, 0, 1>>, <<1, 1>>} :
         I = Inputs(<<60, 15>>, <<Job(5, 60, ds1, 1), Job(4, 6, 6, 2)>>, Sv(type, 0, 120, 2, 10),
                    St(2, durh, 0, 600, idle), <<Up(100, v1), Up(103, <<1, 3>>)>>, 2)
    /\ k \in {2, 3} /\ drv \in Drivers

Init == /\ phase = "chosen"
        /\ CASE Family = "usage" -> UsageInit [] Family = "sizing" -> SizingInit [] Family = "scale" -> ScaleInit
(* the theorems are evaluated on the successor state so that TLC's workers share the work *)
Next == phase = "chosen" /\ phase' = "evaluate" /\ UNCHANGED <<T, I, k, drv>>
Spec == Init /\ [][Next]_vars

(******************************** C03 theorems *****************************)
UPs == T.ups
JobsIn(up) == JobsOfUJ(T, T.uj[up])
StartsTotal(up) == SeqSum(I.up[up].vals, 1)
FirstHour(up) == I.up[up].start - I.tz[T.country[up]]
LastHour(up) == FirstHour(up) + Len(I.up[up].vals) - 1

OccurrencesConserved_ ==
    \A up \in UPs : \A j \in JobsIn(up) :
        Total(Occ(T, I, j, up)) = StartsTotal(up) * Multiplicity(T, T.uj[up], j)
OccurrencesPlaced_ ==      \* nothing before the first start, nothing later than the last start plus the whole journey
    \A up \in UPs : \A j \in JobsIn(up) : \A h \in DOMAIN Occ(T, I, j, up) :
        /\ h >= FirstHour(up)
        /\ h <= LastHour(up) + UJDuration(T, I, T.uj[up]) \div 60
OccurrenceHoursConserved_ ==
    \A up \in UPs : \A j \in JobsIn(up) :
        Total(Avg4(T, I, j, up)) = Total(Occ(T, I, j, up)) * I.job[j].dur
DataConserved_ ==
    \A up \in UPs : \A j \in JobsIn(up) :
        LET nh == CeilDiv(I.job[j].dur, TICKS) IN
        /\ I.job[j].dt % nh = 0 => Total(DataT(T, I, j, up)) = Total(Occ(T, I, j, up)) * I.job[j].dt
        /\ I.job[j].ds % nh = 0 => Total(DataS(T, I, j, up)) = Total(Occ(T, I, j, up)) * I.job[j].ds
JourneysInParallelConserved_ ==
    \A up \in UPs : Total(Par4(T, I, up)) = StartsTotal(up) * (UJDuration(T, I, T.uj[up]) \div 15)
DeviceEnergyConserved_ ==
    \A up \in UPs : Total(DevEnergy4(T, I, up)) = StartsTotal(up) * (UJDuration(T, I, T.uj[up]) \div 15) * DevPower(T, I, up)
AcrossPatternsAddsUp_ ==
    \A j \in T.jobs : Total(OccX(T, I, j)) = SumSet([up \in UPsOfJob(T, j) |-> Total(Occ(T, I, j, up))], UPsOfJob(T, j))

(******************************** C04 theorems *****************************)
V == "v1"
S1 == "t1"
NoSizingError == ~ServerCapacityError(I, V) /\ ~FixedCountError(T, I, V)
ServerCoversNeed_ ==
    NoSizingError =>
      LET raw == Raw480(T, I, V)  nb == Nb480(T, I, V) IN
      /\ DOMAIN nb = DOMAIN raw
      /\ \A h \in DOMAIN raw : nb[h] >= raw[h]
      /\ I.sv[V].type = "serverless" => nb = raw
      /\ I.sv[V].type = "autoscaling" => \A h \in DOMAIN raw : nb[h] % 480 = 0 /\ nb[h] - raw[h] < 480
      /\ I.sv[V].type = "on-premise" =>
            /\ \A g, h \in DOMAIN nb : nb[g] = nb[h]
            /\ \A h \in DOMAIN nb : nb[h] >= PeakInstances(T, I, V) * 480
            /\ I.sv[V].fixed > 0 => \A h \in DOMAIN nb : nb[h] = I.sv[V].fixed * 480
FixedCountNeverUnderProvisions_ ==
    (I.sv[V].type = "on-premise" /\ I.sv[V].fixed > 0 /\ ~FixedCountError(T, I, V)) =>
        \A h \in DOMAIN Raw480(T, I, V) : Raw480(T, I, V)[h] <= I.sv[V].fixed * 480
NoDeletion == \A j \in T.jobs : I.job[j].ds >= 0
DeletionFreeNeverNegative_ == NoDeletion => ~NegativeStorageError(T, I, S1)
StorageCoversNeed_ ==
    (~NegativeStorageError(T, I, S1) /\ ~StoFixedError(T, I, S1)) =>
      LET cum == StoCumulative(T, I, S1)  nb == StoNb(T, I, S1)  act == StoActiveCap(T, I, S1) IN
      /\ \A h \in DOMAIN cum : cum[h] >= 0 /\ nb[h] * I.st[S1].cap >= cum[h]
      /\ \A h \in DOMAIN act : act[h] <= Val(nb, h) * I.st[S1].cap /\ act[h] >= 0
CumulativeIsRunningSum_ ==
    LET d == StoDelta(T, I, S1)  cum == StoCumulative(T, I, S1) IN
    \A h \in DOMAIN cum : cum[h] = I.st[S1].base + SumSet(d, {x \in DOMAIN d : x <= h})
NeedsCombineByTimestamp_ ==      \* total need = sum over writing jobs, whatever their time windows
    Total(StoNeeded(T, I, S1)) =
        I.st[S1].repl * SumSet([j \in {x \in StoJobs(T, S1) : I.job[x].ds >= 0} |-> Total(DataSX(T, I, j))],
                               {x \in StoJobs(T, S1) : I.job[x].ds >= 0})

(******************************** C02 theorems *****************************)
NonNegativeWithoutDeletion_ ==
    (NoDeletion /\ NoSizingError) =>
      /\ \A h \in DOMAIN SrvEnergyFp480(T, I, V) : SrvEnergyFp480(T, I, V)[h] >= 0
      /\ \A h \in DOMAIN StoEnergyFpCap(T, I, S1) : StoEnergyFpCap(T, I, S1)[h] >= 0
      /\ \A h \in DOMAIN StoFab(T, I, S1) : StoFab(T, I, S1)[h] >= 0
      /\ \A h \in DOMAIN NetFp(T, I, "n1") : NetFp(T, I, "n1")[h] >= 0
EnergyFootprintIsEnergyTimesIntensity_ ==
    NoSizingError =>
      /\ SrvEnergyFp480(T, I, V) = Scale(SrvEnergy480(T, I, V), I.sv[V].ci)
      /\ (~NegativeStorageError(T, I, S1)) => StoEnergyFpCap(T, I, S1) = Scale(StoEnergyCap(T, I, S1), I.sv[V].ci)
      /\ \A up \in UPs : DevEnergyFp4(T, I, up) = Scale(DevEnergy4(T, I, up), I.ci[T.country[up]])

(******************************** C12 theorems *****************************)
Times(s) == Scale(s, k)
I2 ==
    CASE drv = "pue" -> [I EXCEPT !.sv[V].pue = @ * k]
      [] drv = "server-ci" -> [I EXCEPT !.sv[V].ci = @ * k]
      [] drv = "bei" -> [I EXCEPT !.net["n1"] = @ * k]
      [] drv = "dt" -> [I EXCEPT !.job["j1"].dt = @ * k, !.job["j2"].dt = @ * k]
      [] drv = "country-ci" -> [I EXCEPT !.ci["c1"] = @ * k, !.ci["c2"] = @ * k]
      [] drv = "device-power" -> [I EXCEPT !.dev["d1"].power = @ * k]
      [] drv = "device-fabrate" -> [I EXCEPT !.dev["d1"].fabrate = @ * k]
      [] drv = "server-fabrate" -> [I EXCEPT !.sv[V].fabrate = @ * k]
      [] drv = "storage-fabrate" -> [I EXCEPT !.st[S1].fabrate = @ * k]
      [] drv = "traffic" -> [I EXCEPT !.up = [u \in DOMAIN I.up |-> [I.up[u] EXCEPT !.vals = [n \in DOMAIN @ |-> @[n] * k]]]]
      [] OTHER -> I
StoOk == ~NegativeStorageError(T, I, S1) /\ ~NegativeStorageError(T, I2, S1)
Same(f(_)) == f(I2) = f(I)
Scaled(f(_)) == f(I2) = Times(f(I))
FSrvE(J) == SrvEnergyFp480(T, J, V)
FSrvF(J) == SrvFab480(T, J, V)
FStoE(J) == IF NegativeStorageError(T, J, S1) THEN EMPTY ELSE StoEnergyFpCap(T, J, S1)
FStoF(J) == IF NegativeStorageError(T, J, S1) THEN EMPTY ELSE StoFab(T, J, S1)
FNet(J) == NetFp(T, J, "n1")
FDevE(J) == AddAll([u \in UPs |-> DevEnergyFp4(T, J, u)], UPs)
FDevF(J) == AddAll([u \in UPs |-> DevFab4(T, J, u)], UPs)
FOcc(J) == OccX(T, J, "j1")
FRaw(J) == Raw480(T, J, V)
Proportional_ ==
    (drv # "none" /\ StoOk) =>
    CASE drv = "pue" -> Scaled(FSrvE) /\ Scaled(FStoE) /\ Same(FSrvF) /\ Same(FStoF) /\ Same(FNet) /\ Same(FDevE) /\ Same(FDevF)
      [] drv = "server-ci" -> Scaled(FSrvE) /\ Scaled(FStoE) /\ Same(FSrvF) /\ Same(FStoF) /\ Same(FNet) /\ Same(FDevE)
      [] drv = "bei" -> Scaled(FNet) /\ Same(FSrvE) /\ Same(FStoE) /\ Same(FDevE) /\ Same(FSrvF)
      [] drv = "dt" -> Scaled(FNet) /\ Same(FSrvE) /\ Same(FStoE) /\ Same(FDevE)
      [] drv = "country-ci" -> Scaled(FNet) /\ Scaled(FDevE) /\ Same(FSrvE) /\ Same(FStoE) /\ Same(FDevF)
      [] drv = "device-power" -> Scaled(FDevE) /\ Same(FDevF) /\ Same(FNet) /\ Same(FSrvE)
      [] drv = "device-fabrate" -> Scaled(FDevF) /\ Same(FDevE) /\ Same(FNet) /\ Same(FSrvF)
      [] drv = "server-fabrate" -> Scaled(FSrvF) /\ Same(FSrvE) /\ Same(FStoF)
      [] drv = "storage-fabrate" -> Scaled(FStoF) /\ Same(FSrvF) /\ Same(FStoE)
      [] drv = "traffic" -> /\ Scaled(FOcc) /\ Scaled(FNet) /\ Scaled(FDevE) /\ Scaled(FDevF)
                            /\ I.sv[V].type = "serverless" => (Scaled(FRaw) /\ Scaled(FSrvE) /\ Scaled(FSrvF))

(* each theorem is an invariant of the evaluation phase *)
OccurrencesConserved == phase = "evaluate" => OccurrencesConserved_
OccurrencesPlaced == phase = "evaluate" => OccurrencesPlaced_
OccurrenceHoursConserved == phase = "evaluate" => OccurrenceHoursConserved_
DataConserved == phase = "evaluate" => DataConserved_
JourneysInParallelConserved == phase = "evaluate" => JourneysInParallelConserved_
DeviceEnergyConserved == phase = "evaluate" => DeviceEnergyConserved_
AcrossPatternsAddsUp == phase = "evaluate" => AcrossPatternsAddsUp_
ServerCoversNeed == phase = "evaluate" => ServerCoversNeed_
FixedCountNeverUnderProvisions == phase = "evaluate" => FixedCountNeverUnderProvisions_
DeletionFreeNeverNegative == phase = "evaluate" => DeletionFreeNeverNegative_
StorageCoversNeed == phase = "evaluate" => StorageCoversNeed_
CumulativeIsRunningSum == phase = "evaluate" => CumulativeIsRunningSum_
NeedsCombineByTimestamp == phase = "evaluate" => NeedsCombineByTimestamp_
NonNegativeWithoutDeletion == phase = "evaluate" => NonNegativeWithoutDeletion_
EnergyFootprintIsEnergyTimesIntensity == phase = "evaluate" => EnergyFootprintIsEnergyTimesIntensity_
Proportional == phase = "evaluate" => Proportional_
=============================================================================
