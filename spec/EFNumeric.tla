------------------------------ MODULE EFNumeric ------------------------------
(***************************************************************************)
(* Integer-lattice transcription of every update function of the core       *)
(* classes (usage_pattern.py, job.py, compute_nb_occurrences_in_parallel.py,*)
(* network.py, server_base.py, storage.py, infra_hardware.py, system.py).   *)
(*                                                                         *)
(* An hourly series is a function from integer hours (since the epoch,      *)
(* UTC) to integers; the empty function is the empty value.  Inputs are     *)
(* drawn from a lattice on which every result is an integer after scaling:  *)
(*   time        : minutes, multiples of 15 (4 ticks per hour)              *)
(*   occurrences : x1      averages / journeys in parallel : x4             *)
(*   data        : kB (per-request amounts divisible by 6)                  *)
(*   RAM         : units of 100 MB   CPU : tenths of a core                 *)
(*   raw / provisioned server instances, server energy and footprints: x480 *)
(*                 (available RAM and CPU per instance divide 120 units)    *)
(*   storage instance ratios and energy: x capacity (kB)                    *)
(*   power W, energy Wh, carbon intensity g/kWh, energy footprint mg,       *)
(*   fabrication rates g per instance-hour.                                 *)
(* Compute(T, I) evaluates the whole model for topology T (EFCore) and      *)
(* lattice inputs I; "raises" are part of the result.                       *)
(***************************************************************************)
EXTENDS EFCore, Integers

EMPTY == <<>>
IsEmpty(s) == DOMAIN s = {}
Val(s, h) == IF h \in DOMAIN s THEN s[h] ELSE 0
Shift(s, k) == [h \in {x + k : x \in DOMAIN s} |-> s[h - k]]
Add(a, b) == [h \in DOMAIN a \cup DOMAIN b |-> Val(a, h) + Val(b, h)]
Scale(s, c) == [h \in DOMAIN s |-> s[h] * c]
Abs(x) == IF x < 0 THEN -x ELSE x
AbsS(s) == [h \in DOMAIN s |-> Abs(s[h])]
MinI(a, b) == IF a <= b THEN a ELSE b
MaxI(a, b) == IF a >= b THEN a ELSE b
CeilDiv(a, b) == IF a >= 0 THEN (a + b - 1) \div b ELSE -((-a) \div b)
MaxOf(X) == CHOOSE x \in X : \A y \in X : y <= x
MinOf(X) == CHOOSE x \in X : \A y \in X : x <= y

RECURSIVE SumSet(_, _)
SumSet(f, X) == IF X = {} THEN 0 ELSE LET x == CHOOSE y \in X : TRUE IN f[x] + SumSet(f, X \ {x})
Total(s) == SumSet(s, DOMAIN s)

RECURSIVE AddAll(_, _)
(* sum of the series F[x] for x in S *)
AddAll(F, X) == IF X = {} THEN EMPTY ELSE LET x == CHOOSE y \in X : TRUE IN Add(F[x], AddAll(F, X \ {x}))

RECURSIVE SeqSum(_, _)
SeqSum(s, i) == IF i > Len(s) THEN 0 ELSE s[i] + SeqSum(s, i + 1)

TICKS == 4      \* lattice ticks per hour

(* compute_nb_avg_hourly_occurrences: result x TICKS *)
AvgOcc(starts, durTicks) ==
    IF IsEmpty(starts) \/ durTicks = 0 THEN EMPTY
    ELSE LET full == durTicks \div TICKS
             rest == durTicks % TICKS
             fullPart == AddAll([k \in 0..(full - 1) |-> Scale(Shift(starts, k), TICKS)], 0..(full - 1))
         IN  IF rest > 0 THEN Add(fullPart, Scale(Shift(starts, full), rest)) ELSE fullPart

(* generic version used by the stand-alone conservation theorems: any number of ticks per hour *)
AvgOccT(starts, dur, ticksPerHour) ==
    IF IsEmpty(starts) \/ dur = 0 THEN EMPTY
    ELSE LET full == dur \div ticksPerHour
             rest == dur % ticksPerHour
             fullPart == AddAll([k \in 0..(full - 1) |-> Scale(Shift(starts, k), ticksPerHour)], 0..(full - 1))
         IN  IF rest > 0 THEN Add(fullPart, Scale(Shift(starts, full), rest)) ELSE fullPart

(* JobBase.compute_hourly_occurrences_for_usage_pattern *)
RECURSIVE OccFrom(_, _, _, _, _, _)
OccFrom(utc, steps, jobsOf, tMin, j, i) ==
    \* steps: sequence of step ids; contribution of steps i..Len, the delay being the minutes of steps 1..i-1
    IF i > Len(steps) THEN EMPTY
    ELSE LET delayMin == SeqSum([k \in 1..(i - 1) |-> tMin[steps[k]]], 1)
             times == Count(jobsOf[steps[i]], j)
             here == IF times = 0 THEN EMPTY ELSE Scale(Shift(utc, delayMin \div 60), times)
         IN  Add(here, OccFrom(utc, steps, jobsOf, tMin, j, i + 1))

(* compute_hourly_data_exchange_for_usage_pattern: amount spread over the full hours of the request *)
DataExchange(occ, amount, durTicks) ==
    IF IsEmpty(occ) THEN EMPTY
    ELSE LET nh == CeilDiv(durTicks, TICKS)
         IN  AddAll([k \in 0..(nh - 1) |-> Scale(Shift(occ, k), amount \div nh)], 0..(nh - 1))

LocalSeries(u) == [h \in u.start..(u.start + Len(u.vals) - 1) |-> u.vals[h - u.start + 1]]

(****************************** usage patterns ******************************)
UtcStarts(T, I, up) == Shift(LocalSeries(I.up[up]), -I.tz[T.country[up]])
UJDuration(T, I, uj) == SeqSum([k \in DOMAIN T.stepsOf[uj] |-> I.t[T.stepsOf[uj][k]]], 1)      \* minutes
Par4(T, I, up) == AvgOcc(UtcStarts(T, I, up), UJDuration(T, I, T.uj[up]) \div 15)
DevPower(T, I, up) == SeqSum([k \in DOMAIN T.devs[up] |-> I.dev[T.devs[up][k]].power], 1)
DevFabRate(T, I, up) == SeqSum([k \in DOMAIN T.devs[up] |-> I.dev[T.devs[up][k]].fabrate], 1)
DevEnergy4(T, I, up) == Scale(Par4(T, I, up), DevPower(T, I, up))                                 \* Wh x4
DevEnergyFp4(T, I, up) == Scale(DevEnergy4(T, I, up), I.ci[T.country[up]])                       \* mg x4
DevFab4(T, I, up) == Scale(Par4(T, I, up), DevFabRate(T, I, up))                                  \* g x4

(*********************************** jobs ***********************************)
Occ(T, I, j, up) == OccFrom(UtcStarts(T, I, up), T.stepsOf[T.uj[up]], T.jobsOf, I.t, j, 1)
Avg4(T, I, j, up) == AvgOcc(Occ(T, I, j, up), I.job[j].dur)
DataT(T, I, j, up) == DataExchange(Occ(T, I, j, up), I.job[j].dt, I.job[j].dur)
DataS(T, I, j, up) == DataExchange(Occ(T, I, j, up), I.job[j].ds, I.job[j].dur)
OccX(T, I, j) == AddAll([up \in UPsOfJob(T, j) |-> Occ(T, I, j, up)], UPsOfJob(T, j))
Avg4X(T, I, j) == AddAll([up \in UPsOfJob(T, j) |-> Avg4(T, I, j, up)], UPsOfJob(T, j))
DataTX(T, I, j) == AddAll([up \in UPsOfJob(T, j) |-> DataT(T, I, j, up)], UPsOfJob(T, j))
DataSX(T, I, j) == AddAll([up \in UPsOfJob(T, j) |-> DataS(T, I, j, up)], UPsOfJob(T, j))

(********************************* networks *********************************)
NetFp(T, I, n) ==      \* 1e-7 g : kB x (0.1 mWh/kB) x (g/kWh)
    AddAll([up \in UPsOfNet(T, n) |->
              Scale(AddAll([j \in JobsOfUJ(T, T.uj[up]) |-> DataT(T, I, j, up)], JobsOfUJ(T, T.uj[up])),
                    I.net[n] * I.ci[T.country[up]])],
           UPsOfNet(T, n))

(********************************** servers *********************************)
RamNeed4(T, I, v) == AddAll([j \in JobsOfServer(T, v) |-> Scale(Avg4X(T, I, j), I.job[j].ram)], JobsOfServer(T, v))
CpuNeed4(T, I, v) == AddAll([j \in JobsOfServer(T, v) |-> Scale(Avg4X(T, I, j), I.job[j].cpu)], JobsOfServer(T, v))
AvailRam(I, v) == (I.sv[v].ram * I.sv[v].util) \div 100 - I.sv[v].baseram
AvailCpu(I, v) == (I.sv[v].cpu * I.sv[v].util) \div 100 - I.sv[v].basecpu
ServerCapacityError(I, v) == AvailRam(I, v) < 0 \/ AvailCpu(I, v) < 0
(* raw number of instances x480 : need4 / (4 x avail) *)
Raw480(T, I, v) ==
    LET r == RamNeed4(T, I, v)
        c == CpuNeed4(T, I, v)
    IN  [h \in DOMAIN r |-> MaxI((r[h] * 120) \div AvailRam(I, v), (Val(c, h) * 120) \div AvailCpu(I, v))]
PeakInstances(T, I, v) ==
    LET raw == Raw480(T, I, v) IN IF IsEmpty(raw) THEN 0 ELSE MaxOf({CeilDiv(raw[h], 480) : h \in DOMAIN raw})
FixedCountError(T, I, v) ==
    I.sv[v].type = "on-premise" /\ I.sv[v].fixed > 0 /\ PeakInstances(T, I, v) > I.sv[v].fixed
FixedCountAtTheLimit(T, I, v) ==
    LET raw == Raw480(T, I, v) IN
    I.sv[v].type = "on-premise" /\ I.sv[v].fixed > 0 /\ ~IsEmpty(raw) /\ \E h \in DOMAIN raw : raw[h] = I.sv[v].fixed * 480
Nb480(T, I, v) ==
    LET raw == Raw480(T, I, v) IN
    IF IsEmpty(raw) THEN EMPTY
    ELSE CASE I.sv[v].type = "autoscaling" -> [h \in DOMAIN raw |-> CeilDiv(raw[h], 480) * 480]
           [] I.sv[v].type = "serverless"  -> raw
           [] OTHER -> LET n == IF I.sv[v].fixed > 0 THEN I.sv[v].fixed ELSE PeakInstances(T, I, v)
                       IN  [h \in DOMAIN raw |-> n * 480]
(* downstream values as functions of the instance count actually provisioned (nb, x480) *)
SrvFab480N(I, v, nb) == Scale(nb, I.sv[v].fabrate)                                                  \* g x480
SrvEnergy480N(T, I, v, nb) ==                                                                        \* Wh x480
    Add(Scale(nb, I.sv[v].idle * I.sv[v].pue),
        Scale(Raw480(T, I, v), (I.sv[v].power - I.sv[v].idle) * I.sv[v].pue))
SrvEnergyFp480N(T, I, v, nb) == Scale(SrvEnergy480N(T, I, v, nb), I.sv[v].ci)                      \* mg x480
SrvFab480(T, I, v) == SrvFab480N(I, v, Nb480(T, I, v))
SrvEnergy480(T, I, v) == SrvEnergy480N(T, I, v, Nb480(T, I, v))
SrvEnergyFp480(T, I, v) == SrvEnergyFp480N(T, I, v, Nb480(T, I, v))
(* A float quotient that should be an exact integer may come out a hair above it, and its ceiling one too *)
(* high: the provisioned count is the exact ceiling, or one more where the raw need is an exact integer.  *)
NbAcceptable(T, I, v, nb) ==
    LET raw == Raw480(T, I, v)
        want == Nb480(T, I, v)
        exactSomewhere == \E h \in DOMAIN raw : raw[h] % 480 = 0
    IN  /\ \A h \in DOMAIN nb \cup DOMAIN want : Val(nb, h) >= Val(want, h)
        /\ CASE I.sv[v].type = "autoscaling" ->
                   \A h \in DOMAIN nb \cup DOMAIN want :
                      Val(nb, h) = Val(want, h) \/ (Val(raw, h) % 480 = 0 /\ Val(nb, h) = Val(want, h) + 480)
             [] I.sv[v].type = "serverless" -> \A h \in DOMAIN nb \cup DOMAIN want : Val(nb, h) = Val(want, h)
             [] OTHER -> \/ \A h \in DOMAIN nb \cup DOMAIN want : Val(nb, h) = Val(want, h)
                         \/ (I.sv[v].fixed = 0 /\ exactSomewhere /\
                             \A h \in DOMAIN nb \cup DOMAIN want : Val(nb, h) = Val(want, h) + 480)

(********************************** storage *********************************)
StoJobs(T, t) == JobsOfStorage(T, t)
StoServer(T, t) == CHOOSE v \in ServersOfStorage(T, t) : TRUE
StoNeeded(T, I, t) ==
    Scale(AddAll([j \in {x \in StoJobs(T, t) : I.job[x].ds >= 0} |-> DataSX(T, I, j)],
                 {x \in StoJobs(T, t) : I.job[x].ds >= 0}), I.st[t].repl)
StoFreed(T, I, t) ==
    Scale(AddAll([j \in {x \in StoJobs(T, t) : I.job[x].ds < 0} |-> DataSX(T, I, j)],
                 {x \in StoJobs(T, t) : I.job[x].ds < 0}), I.st[t].repl)
(* data is kept for the storage duration rounded UP to whole hours (math.ceil of the duration in hours); a storage record *)
(* carries the duration in minutes (durmin) when it comes from a recorded system, in whole hours (durh) in MC_Numeric    *)
StoDurH(s) == IF "durmin" \in DOMAIN s THEN (s.durmin + 59) \div 60 ELSE s.durh
(* automatic dumps after the storage duration: minus the need, shifted, cut at the last hour of the need *)
StoDumps(T, I, t) ==
    LET need == StoNeeded(T, I, t) IN
    IF IsEmpty(need) THEN EMPTY
    ELSE LET sh == Shift(need, StoDurH(I.st[t]))
             last == MaxOf(DOMAIN need)
             first == MinOf(DOMAIN need)
             kept == {x \in DOMAIN sh : x <= last}
         IN  IF kept # {} THEN [h \in kept |-> -sh[h]]
             \* nothing expires within the period: the code substitutes a series of zeros that starts at the
             \* first hour of the need and spans (last - first).seconds hours, i.e. the span modulo one day
             ELSE [h \in first..(first + ((last - first) % 24)) |-> 0]
StoDelta(T, I, t) == Add(Add(StoNeeded(T, I, t), StoFreed(T, I, t)), StoDumps(T, I, t))
(* base need plus running sum over the hours present in the delta *)
StoCumulative(T, I, t) ==
    LET d == StoDelta(T, I, t) IN
    [h \in DOMAIN d |-> I.st[t].base + SumSet(d, {x \in DOMAIN d : x <= h})]
NegativeStorageError(T, I, t) ==
    LET c == StoCumulative(T, I, t) IN \E h \in DOMAIN c : c[h] < 0
StoNbRaw(T, I, t) == LET c == StoCumulative(T, I, t) IN [h \in DOMAIN c |-> CeilDiv(c[h], I.st[t].cap)]
StoFixedError(T, I, t) ==
    LET n == StoNbRaw(T, I, t) IN I.st[t].fixed > 0 /\ \E h \in DOMAIN n : n[h] > I.st[t].fixed
(* the need equals the fixed count exactly at some hour: the code divides floats, the quotient may come out a hair above  *)
(* the integer and the fixed count be refused -- which the property allows ("honoured exactly or the model raises")       *)
StoFixedAtTheLimit(T, I, t) ==
    LET c == StoCumulative(T, I, t) IN
    I.st[t].fixed > 0 /\ \E h \in DOMAIN c : c[h] = I.st[t].fixed * I.st[t].cap
StoNb(T, I, t) ==
    LET n == StoNbRaw(T, I, t) IN IF I.st[t].fixed > 0 THEN [h \in DOMAIN n |-> I.st[t].fixed] ELSE n
(* active instances x capacity: what is written, deleted or dumped in the hour, at most what is provisioned *)
StoActiveCapN(T, I, t, nb) ==
    LET need == StoNeeded(T, I, t)
        freed == StoFreed(T, I, t)
        dumps == StoDumps(T, I, t)
        moved == [h \in DOMAIN need \cup DOMAIN freed \cup DOMAIN dumps |->
                    MaxI(Abs(Val(need, h)), Abs(Val(freed, h))) + Abs(Val(dumps, h))]
    IN  [h \in DOMAIN moved |-> MinI(moved[h], Val(nb, h) * I.st[t].cap)]
StoFabN(I, t, nb) == Scale(nb, I.st[t].fabrate)                                                     \* g
StoEnergyCapN(T, I, t, nb) ==                                                                        \* Wh x cap
    LET act == StoActiveCapN(T, I, t, nb)
        pue == I.sv[StoServer(T, t)].pue
    IN  [h \in DOMAIN nb |-> (Val(act, h) * I.st[t].power + (nb[h] * I.st[t].cap - Val(act, h)) * I.st[t].idle) * pue]
StoEnergyFpCapN(T, I, t, nb) == Scale(StoEnergyCapN(T, I, t, nb), I.sv[StoServer(T, t)].ci)       \* mg x cap
StoActiveCap(T, I, t) == StoActiveCapN(T, I, t, StoNb(T, I, t))
StoFab(T, I, t) == StoFabN(I, t, StoNb(T, I, t))
StoEnergyCap(T, I, t) == StoEnergyCapN(T, I, t, StoNb(T, I, t))
StoEnergyFpCap(T, I, t) == StoEnergyFpCapN(T, I, t, StoNb(T, I, t))
StoNbAcceptable(T, I, t, nb) ==
    LET want == StoNb(T, I, t)
        cum == StoCumulative(T, I, t)
    IN  \A h \in DOMAIN nb \cup DOMAIN want :
          \/ Val(nb, h) = Val(want, h)
          \/ (I.st[t].fixed = 0 /\ Val(cum, h) % I.st[t].cap = 0 /\ Val(nb, h) = Val(want, h) + 1)

(******************************* theorems' helpers **************************)
Multiplicity(T, uj, j) == SeqSum([k \in DOMAIN T.stepsOf[uj] |-> Count(T.jobsOf[T.stepsOf[uj][k]], j)], 1)
=============================================================================
