---------------------------- MODULE MC_Services ----------------------------
(* every topology of a small universe of servers, services, service jobs and plain jobs; every re-pointing of a link:     *)
(* the object chain of the code covers every object that reads something the change alters (ChainCovers).  FixHolder =    *)
(* FALSE (the pinned behaviour before repair 54f9d99) and ListsServer = FALSE (a seeded change) must each give a          *)
(* counterexample: the harness checks that they do.                                                                        *)
EXTENDS EFServices, TLC
CONSTANTS Servers, Services, SJobs, PJobs, FixHolder, ListsServer
VARIABLE S

Sto(v) == "storage of " \o v      \* every id is a string (TLC does not compare a string with a tuple)

Init == \E srv \in [Services -> Servers], svc \in [SJobs -> Services], ps \in [PJobs -> Servers], c \in SUBSET Services :
           /\ \A j \in SJobs : TRUE
           /\ S = [servers |-> Servers, services |-> Services, sjobs |-> SJobs, pjobs |-> PJobs, calc |-> c,
                   srvOf |-> srv, svcOf |-> svc, pserver |-> ps, stoOf |-> [v \in Servers |-> Sto(v)]]
Next == \E ch \in {m \in Moves(S) : WellFormedMove(S, m)} : S' = Apply(S, ch)
Spec == Init /\ [][Next]_S

Covers == ChainCovers(S, FixHolder, ListsServer)
(* non-vacuity: some move needs an object that is neither the old nor the new linked object nor the holder *)
SomeMoveNeedsMore == \E ch \in {m \in Moves(S) : WellFormedMove(S, m)} : Need(S, ch) \ {ch.obj, ch.old, ch.new, SYSTEM} # {}
=============================================================================
