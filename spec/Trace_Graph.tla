------------------------------ MODULE Trace_Graph ------------------------------
(* Recorded calculation graphs of real systems after edit histories, simulations and toggles (C08). *)
EXTENDS EFGraph, Json
CONSTANTS TraceFile
Events == ndJsonDeserialize(TraceFile)
N == Len(Events)
VARIABLES i
vars == <<i>>
SeqSetG(s) == {s[n] : n \in DOMAIN s}
Line(kind, e, clause, data) ==
    PrintT(kind \o "|" \o ToString(e.tid) \o "|" \o ToString(e.seq) \o "|" \o clause \o "|" \o ToString(data))
Fail(e, clause, data) == Line("FAIL", e, clause, data)
Graph(j) == [anc |-> [n \in DOMAIN j |-> SeqSetG(j[n].anc)], chld |-> [n \in DOMAIN j |-> SeqSetG(j[n].chld)]]

CheckGraph(e) ==
    LET G == Graph(e.nodes) IN
    /\ IF Asymmetric(G) # {} THEN Fail(e, "dependency-not-listed-on-both-ends", Asymmetric(G)) ELSE TRUE
    \* the same at the level of single value objects: the entries of a per-usage-pattern dictionary share one identifier
    /\ LET GT == Graph(e.tnodes) IN
       IF Asymmetric(GT) # {} THEN Fail(e, "dependency-not-listed-on-both-ends(dictionary-entry-level)", Asymmetric(GT)) ELSE TRUE
    /\ IF Dangling(G) # {} THEN Fail(e, "graph-refers-to-a-value-not-held-by-the-model", Dangling(G)) ELSE TRUE
    /\ IF e.detached_refs # <<>> THEN Fail(e, "graph-refers-to-a-detached-or-superseded-value", e.detached_refs) ELSE TRUE
    /\ IF OnCycle(G) # {} THEN Fail(e, "cycle-in-calculation-graph", OnCycle(G)) ELSE TRUE
    /\ IF ~e.export_equal THEN Fail(e, "exported-graph-differs-from-the-live-one", e.export_diff) ELSE TRUE
CheckPerturb(e) ==
    LET G == Graph(e.nodes)
        outside == SeqSetG(e.changed) \ Descendants(G, e.input)
    IN  IF outside # {} THEN Fail(e, "input-changes-a-value-it-is-not-an-ancestor-of", <<e.input, outside>>) ELSE TRUE
CheckChain(e) ==
    LET G == Graph(e.nodes)
        P == ChainProblems(G, e.input, e.chain)
    IN  IF P # {} THEN Fail(e, "update-order-wrong", <<e.input, P>>) ELSE TRUE
Step ==
    /\ i < N /\ i' = i + 1
    /\ LET e == Events[i + 1] IN
       CASE e.ev = "Graph" -> CheckGraph(e)
         [] e.ev = "Perturb" -> CheckPerturb(e)
         [] e.ev = "Chain" -> CheckChain(e)
Init == i = 0
Next == Step
Spec == Init /\ [][Next]_vars
AllConsumed == TLCGet("stats").diameter - 1 = N
=============================================================================
