------------------------------ MODULE Trace_Json ------------------------------
(***************************************************************************)
(* Save / load round trips of real systems (C13).  The abstract state of a  *)
(* system is: its objects (class, name, id), forward links, the label and   *)
(* source of every input, the value class of every input (hourly inputs are *)
(* compared after the documented rounding to 3 decimals) and, once          *)
(* recomputed, the value class of every calculated attribute.  A round trip *)
(* event carries that state for the original (orig) and the loaded system   *)
(* (loaded), whether a second export equals the first one, and the states   *)
(* of both after the same edit was applied to each.                         *)
(***************************************************************************)
EXTENDS EFJson, Json
CONSTANTS TraceFile
Events == ndJsonDeserialize(TraceFile)
N == Len(Events)
VARIABLES i
vars == <<i>>
Line(kind, e, clause, data) ==
    PrintT(kind \o "|" \o ToString(e.tid) \o "|" \o ToString(e.seq) \o "|" \o clause \o "|" \o ToString(data))
Fail(e, clause, data) == Line("FAIL", e, clause, data)

(* the fields of a state that differ *)
DiffKeys(a, b) == {k \in DOMAIN a \cup DOMAIN b : k \notin DOMAIN a \/ k \notin DOMAIN b \/ a[k] # b[k]}
SameState(e, a, b, what) ==
    /\ IF DiffKeys(a.objects, b.objects) # {} THEN Fail(e, what \o ":objects-or-identifiers-differ", DiffKeys(a.objects, b.objects)) ELSE TRUE
    /\ IF DiffKeys(a.links, b.links) # {} THEN Fail(e, what \o ":links-differ", DiffKeys(a.links, b.links)) ELSE TRUE
    /\ IF DiffKeys(a.labels, b.labels) # {} THEN Fail(e, what \o ":labels-differ", DiffKeys(a.labels, b.labels)) ELSE TRUE
    /\ IF DiffKeys(a.sources, b.sources) # {} THEN Fail(e, what \o ":sources-differ", DiffKeys(a.sources, b.sources)) ELSE TRUE
    /\ IF DiffKeys(a.inputs, b.inputs) # {} THEN Fail(e, what \o ":input-values-differ", DiffKeys(a.inputs, b.inputs)) ELSE TRUE
    /\ IF DiffKeys(a.results, b.results) # {} THEN Fail(e, what \o ":recomputed-results-differ", DiffKeys(a.results, b.results)) ELSE TRUE

(* the rounding rule of EFJson on the hourly inputs themselves (1e-4 units): loaded = original rounded to 3 decimals *)
HourlyRule(e, a, b) ==
    LET bad == {k \in DOMAIN a.hourly \cap DOMAIN b.hourly :
                  /\ \A n \in DOMAIN a.hourly[k] : ~IsTie(a.hourly[k][n])
                  /\ b.hourly[k] # RoundSeq(a.hourly[k])}
    IN  IF bad # {} THEN Fail(e, "loaded:hourly-input-is-not-the-3-decimal-rounding-of-the-original", bad) ELSE TRUE

Check(e) ==
    CASE e.ev = "RoundTrip" ->
           /\ IF e.load_error = "none" THEN HourlyRule(e, e.orig, e.loaded) ELSE TRUE
           /\ IF e.load_error # "none" THEN Fail(e, "load-raised:" \o e.flavour, e.load_error) ELSE TRUE
           /\ IF e.load_error = "none" THEN SameState(e, e.orig, e.loaded, "loaded") ELSE TRUE
           /\ IF e.load_error = "none" /\ ~e.second_export_equal THEN Fail(e, "second-export-differs", e.export_diff) ELSE TRUE
           /\ IF e.load_error = "none" /\ e.edited THEN SameState(e, e.orig_after_edit, e.loaded_after_edit, "after-same-edit") ELSE TRUE
      [] e.ev = "Legacy" ->
           /\ IF e.load_error # "none" THEN Fail(e, "legacy-file-does-not-load", e.load_error) ELSE TRUE
           /\ IF e.load_error = "none" THEN SameState(e, e.orig, e.loaded, "previous-major-version") ELSE TRUE
Step == i < N /\ i' = i + 1 /\ Check(Events[i + 1])
Init == i = 0
Next == Step
Spec == Init /\ [][Next]_vars
AllConsumed == TLCGet("stats").diameter - 1 = N
=============================================================================
