------------------------------ MODULE MC_Calendar ------------------------------
(* Theorems on EFCalendar checked by TLC: every day from 1970-01-01 to MaxDay is one state (calendar laws);   *)
(* a second family enumerates builder arguments (frequency laws on small spans).                               *)
EXTENDS EFCalendar

CONSTANTS MaxDay, Family

VARIABLES d, arg
vars == <<d, arg>>

Freqs == {"daily", "weekly", "monthly", "yearly"}
Anchor == 20089 * 24           \* 2025-01-01 00:00 in hours since the epoch

BuilderArgs ==
    [start : {Anchor, Anchor + 6, Anchor + 23 + 24 * 30, Anchor + 24 * 58 + 13},     \* incl. 2025-02-28 13:00
     span : {0, 23, 24, 49, 24 * 9 + 5},
     freq : Freqs,
     days : {{0}, {1}, {1, 28}, {2, 6}, {59, 60}},
     hours : {{0}, {6, 18}, {23}}]

Init == IF Family = "calendar" THEN d \in 0..MaxDay /\ arg = <<>>
        ELSE d = 0 /\ arg \in BuilderArgs
Next == UNCHANGED vars
Spec == Init /\ [][Next]_vars

C == CivilFromDays(d)
RoundTrip == Family = "calendar" => DaysFromCivil(C[1], C[2], C[3]) = d
WellFormedDate == Family = "calendar" => C[2] \in 1..12 /\ C[3] \in 1..DaysInMonth(C[1], C[2])
NextDay ==
    Family = "calendar" =>
    LET n == CivilFromDays(d + 1) IN
    n = IF C[3] < DaysInMonth(C[1], C[2]) THEN <<C[1], C[2], C[3] + 1>>
        ELSE IF C[2] < 12 THEN <<C[1], C[2] + 1, 1>> ELSE <<C[1] + 1, 1, 1>>
DayOfYearLaw ==
    Family = "calendar" =>
    /\ DayOfYear(d) \in 1..(IF IsLeap(C[1]) THEN 366 ELSE 365)
    /\ (C[2] = 1 /\ C[3] = 1) => DayOfYear(d) = 1
    /\ (C[2] = 12 /\ C[3] = 31) => DayOfYear(d) = (IF IsLeap(C[1]) THEN 366 ELSE 365)
Anchors ==
    /\ Weekday(DaysFromCivil(1970, 1, 1)) = 3 /\ Weekday(DaysFromCivil(2025, 1, 1)) = 2
    /\ Weekday(DaysFromCivil(2000, 2, 29)) = 1 /\ Weekday(DaysFromCivil(2024, 12, 31)) = 1
    /\ DaysFromCivil(2025, 1, 1) = 20089 /\ IsLeap(2000) /\ ~IsLeap(2100) /\ IsLeap(2024) /\ ~IsLeap(2025)

S == FromFrequency(arg.span, 7, arg.freq, arg.days, arg.hours, arg.start)
OneValuePerHour ==
    Family = "builders" => Len(S) = arg.span + 1 /\ Contiguous(S, arg.start)
VolumeOnlyAtMatchingHours ==
    Family = "builders" =>
    \A n \in DOMAIN S : S[n][2] = (IF Matches(S[n][1], arg.freq, arg.days, arg.hours) THEN 7 ELSE 0)
DailySpreadSumsToVolumeOnFullDays ==
    (Family = "builders" /\ arg.freq = "daily") =>
    \A day \in DayOf(arg.start)..DayOf(arg.start + arg.span) :
        (day * 24 >= arg.start /\ day * 24 + 23 <= arg.start + arg.span) =>
            SumOver(S, {day * 24 + h : h \in 0..23}) = 7 * Cardinality(arg.hours)
WeeklyHitsOnlyThatWeekday ==
    (Family = "builders" /\ arg.freq = "weekly") =>
    \A n \in DOMAIN S : S[n][2] # 0 => Weekday(DayOf(S[n][1])) \in arg.days
=============================================================================
