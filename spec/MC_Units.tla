------------------------------- MODULE MC_Units -------------------------------
(* laws of EFUnits over every pair of small quantities and every re-expression of an operand in another unit *)
EXTENDS EFUnits
VARIABLES a, b, g, phase
Factors == {1, 10, 1000}
Quantities == {Q(m, f) : m \in 0..12, f \in Factors}
Init == a \in Quantities /\ b \in Quantities /\ g \in Factors /\ phase = 0
Next == phase = 0 /\ phase' = 1 /\ UNCHANGED <<a, b, g>>
Spec == Init /\ [][Next]_<<a, b, g, phase>>
Go == phase = 1 /\ Expressible(a, g)                       \* a can be written in the unit worth g
A2 == To(a, g)
(* unit-aware operators do not see how an operand is written *)
AddIsUnitSafe == Go /\ Base(b) % a.f = 0 /\ Base(b) % g = 0 => Base(Add(A2, b)) = Base(Add(a, b))
MulIsUnitSafe == Go => Base(Mul(A2, b)) = Base(Mul(a, b))
MaxAwareIsUnitSafe == Go => Base(MaxAware(A2, b)) = Base(MaxAware(a, b))
(* the bare-magnitude helper is right exactly under its precondition: same unit on both sides *)
MaxRawRightInSameUnit == phase = 1 /\ a.f = b.f => Base(MaxRaw(a, b)) = Base(MaxAware(a, b))
(* ... and wrong without it for some operands: NOT an invariant, checked as an expected counterexample by the harness *)
MaxRawAlwaysRight == phase = 1 => Base(MaxRaw(a, b)) = Base(MaxAware(a, b))
(* ceil is unit-dependent by nature; on a dimensionless count (f = 1 only) there is nothing to re-express *)
CeilRightOnCounts == phase = 1 /\ a.f = 1 /\ g = 1 => Base(CeilRaw(To(a, g), 1)) = Base(CeilRaw(a, 1))
=============================================================================
