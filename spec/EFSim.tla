--------------------------------- MODULE EFSim ---------------------------------
(***************************************************************************)
(* The what-if simulation protocol of ModelingUpdate (modeling_update.py)   *)
(* on value IDENTITIES.  Slots hold tokens (value objects); every token     *)
(* records its ancestors when it is created and registers itself as a child *)
(* of each of them while it is attached (explainable_object_base_class.py   *)
(* set_modeling_obj_container).  A dated update                             *)
(*   1. replaces hourly ancestors outside the chain by truncated copies,    *)
(*   2. if links change, replaces the other outside ancestors by copies,    *)
(*   3. applies the changed inputs, 4. checks allowed values (may raise),   *)
(*   5. recomputes the chain in order (each update function may raise),     *)
(*   6. pairs twins, 7. swaps every previous value back.                    *)
(* set_updated_values / reset_values swap the two parallel lists.           *)
(* Small fixed shape: input in1; outside ancestors a1 (hourly) and a2;      *)
(* recomputed r1 (reads in1, a1) and r2 (reads r1, a2).                     *)
(***************************************************************************)
EXTENDS Naturals, Sequences, FiniteSets, TLC

CONSTANTS RestoreOnFailure,    \* the repaired behaviour: a failing simulation undoes what it swapped
          Structural           \* the change list contains a link change (outside ancestors are copied)

Slots == {"in1", "a1", "a2", "r1", "r2"}
ReadsOf(s) == CASE s = "r1" -> {"in1", "a1"} [] s = "r2" -> {"r1", "a2"} [] OTHER -> {}

VARIABLES tok,       \* slot -> token currently in the slot
          anc,       \* token -> set of tokens recorded as ancestors
          chld,      \* token -> set of tokens registered as children
          next,      \* next fresh token
          sim,       \* [prev, new : Seq(token), slots : Seq(slot), set, exists : BOOLEAN]
          out        \* outcome of the last action
vars == <<tok, anc, chld, next, sim, out>>

Tok0 == [s \in Slots |-> CASE s = "in1" -> 1 [] s = "a1" -> 2 [] s = "a2" -> 3 [] s = "r1" -> 4 [] s = "r2" -> 5]
Anc0 == [t \in 1..5 |-> CASE t = 4 -> {1, 2} [] t = 5 -> {4, 3} [] OTHER -> {}]
Chld0 == [t \in 1..5 |-> {c \in 1..5 : t \in Anc0[c]}]

NoSim == [prev |-> <<>>, new |-> <<>>, slots |-> <<>>, set |-> FALSE, exists |-> FALSE]
Init == tok = Tok0 /\ anc = Anc0 /\ chld = Chld0 /\ next = 6 /\ sim = NoSim /\ out = "init"

(* world W = [tok, anc, chld, next]; replacing the content of a slot detaches the old token (it unregisters  *)
(* from its ancestors' children) and attaches the new one (it registers)                                      *)
Put(W, s, t) ==
    LET old == W.tok[s]
        c1 == [x \in DOMAIN W.chld |-> IF x \in W.anc[old] THEN W.chld[x] \ {old} ELSE W.chld[x]]
        c2 == [x \in DOMAIN c1 |-> IF x \in W.anc[t] THEN c1[x] \cup {t} ELSE c1[x]]
    IN  [W EXCEPT !.tok[s] = t, !.chld = c2]
(* a fresh token whose ancestors are the tokens currently in the slots it reads *)
Fresh(W, ancestors) ==
    [W EXCEPT !.anc = [x \in DOMAIN W.anc \cup {W.next} |-> IF x = W.next THEN ancestors ELSE W.anc[x]],
              !.chld = [x \in DOMAIN W.chld \cup {W.next} |-> IF x = W.next THEN {} ELSE W.chld[x]],
              !.next = W.next + 1]
World == [tok |-> tok, anc |-> anc, chld |-> chld, next |-> next]

(* one step of the creation sequence: replace slot s by a fresh token *)
Replace(W, s, ancestors) == LET W1 == Fresh(W, ancestors) IN Put(W1, s, W.next)

Steps == IF Structural THEN <<"a1", "a2", "in1", "check", "r1", "r2">> ELSE <<"a1", "in1", "check", "r1", "r2">>

RECURSIVE Run(_, _, _, _, _)
(* executes Steps[i..]; failAt = 0 never fails; returns [W, prev, new, slots, failed] *)
Run(W, i, failAt, acc, dummy) ==
    IF i > Len(Steps) THEN [W |-> W, prev |-> acc.prev, new |-> acc.new, slots |-> acc.slots, failed |-> FALSE]
    ELSE IF i = failAt THEN [W |-> W, prev |-> acc.prev, new |-> acc.new, slots |-> acc.slots, failed |-> TRUE]
    ELSE LET s == Steps[i] IN
         IF s = "check" THEN Run(W, i + 1, failAt, acc, dummy)
         ELSE LET ancestors == IF s \in {"r1", "r2"} THEN {W.tok[x] : x \in ReadsOf(s)}
                               ELSE W.anc[W.tok[s]]          \* a copy / truncated copy / new input keeps no new parents
                  W2 == Replace(W, s, IF s \in {"a1", "a2", "in1"} THEN {} ELSE ancestors)
              IN  Run(W2, i + 1, failAt, [prev |-> Append(acc.prev, W.tok[s]), new |-> Append(acc.new, W.next),
                                          slots |-> Append(acc.slots, s)], dummy)

RECURSIVE Swap(_, _, _, _)
Swap(W, slots, toks, i) == IF i > Len(slots) THEN W ELSE Swap(Put(W, slots[i], toks[i]), slots, toks, i + 1)
RECURSIVE SwapBack(_, _, _, _)
SwapBack(W, slots, toks, i) == IF i < 1 THEN W ELSE SwapBack(Put(W, slots[i], toks[i]), slots, toks, i - 1)

Install(W, s, o) == tok' = W.tok /\ anc' = W.anc /\ chld' = W.chld /\ next' = W.next /\ sim' = s /\ out' = o

Create(failAt) ==
    /\ ~sim.set
    /\ next < 40
    /\ LET r == Run(World, 1, failAt, [prev |-> <<>>, new |-> <<>>, slots |-> <<>>], 0) IN
       IF r.failed
       THEN IF RestoreOnFailure THEN Install(SwapBack(r.W, r.slots, r.prev, Len(r.slots)), sim, "raised")
            ELSE Install(r.W, sim, "raised")
       ELSE Install(Swap(r.W, r.slots, r.prev, 1), [prev |-> r.prev, new |-> r.new, slots |-> r.slots, set |-> FALSE, exists |-> TRUE], "created")

SetValues ==
    /\ sim.exists
    /\ IF sim.set THEN UNCHANGED vars
       ELSE Install(Swap(World, sim.slots, sim.new, 1), [sim EXCEPT !.set = TRUE], "set")
ResetValues ==
    /\ sim.exists
    /\ IF ~sim.set THEN UNCHANGED vars
       ELSE Install(Swap(World, sim.slots, sim.prev, 1), [sim EXCEPT !.set = FALSE], "reset")

Next == (\E f \in 0..Len(Steps) : Create(f)) \/ SetValues \/ ResetValues
Spec == Init /\ [][Next]_vars

(******************************* properties ********************************)
BaselineMode == ~sim.set
(* the very same value objects, and the same dependency graph among them *)
BaselineIntact ==
    BaselineMode => /\ tok = Tok0
                    /\ \A t \in 1..5 : chld[t] = Chld0[t]
TwinsPaired == sim.exists => Len(sim.prev) = Len(sim.new) /\ Len(sim.new) = Len(sim.slots)
SimulatedValuesInstalled == sim.set => \A i \in DOMAIN sim.slots : tok[sim.slots[i]] = sim.new[i]
(* garbage tokens grow without bound: only what is observable identifies a state *)
View == <<tok, [t \in 1..5 |-> chld[t]], <<sim.exists, sim.set, sim.slots>>, out>>
=============================================================================
