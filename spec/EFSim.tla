--------------------------------- MODULE EFSim ---------------------------------
(***************************************************************************)
(* The what-if simulation protocol of ModelingUpdate (modeling_update.py)   *)
(* on value IDENTITIES.  Slots hold tokens (value objects); every token     *)
(* records its ancestors when it is created and registers itself as a child *)
(* of each of them while it is attached (explainable_object_base_class.py   *)
(* set_modeling_obj_container).  A dated update                             *)
(*   1. replaces hourly ancestors outside the chain by truncated copies,    *)
(*   2. if links change, replaces the other outside ancestors by copies,    *)
(*   3. applies the changed inputs, 4. checks allowed values (may raise),   *)
(*   5. recomputes the chain in order (each update function may raise),     *)
(*   6. pairs twins, 7. swaps every previous value back.                    *)
(* set_updated_values / reset_values swap the two parallel lists.           *)
(* An UNDATED update (an ordinary edit) runs steps 3-5 only and leaves the  *)
(* new values installed; since the repair of the roll-back (93c3c70) a      *)
(* failure at any step undoes everything, like a failed simulation.         *)
(* Several simulations can be made one after the other on one system: each  *)
(* keeps its own two lists; the system remembers the last one STARTED       *)
(* (system.simulation, taken even by a simulation that is then refused);    *)
(* any of them can be switched on and back off while the others are off.    *)
(* Small fixed shape: input in1; outside ancestors a1 (hourly) and a2;      *)
(* recomputed r1 (reads in1, a1) and r2 (reads r1, a2).                     *)
(***************************************************************************)
EXTENDS Naturals, Sequences, FiniteSets, TLC

CONSTANTS RestoreOnFailure,    \* the repaired behaviour: a failing simulation undoes what it swapped
          Structural,          \* the change list contains a link change (outside ancestors are copied)
          MaxSims,             \* how many simulations are kept side by side
          ResetOnlyLatest      \* FALSE = the code; TRUE = a seeded change (only the last started simulation puts the baseline back)

Slots == {"in1", "a1", "a2", "r1", "r2"}
ReadsOf(s) == CASE s = "r1" -> {"in1", "a1"} [] s = "r2" -> {"r1", "a2"} [] OTHER -> {}

VARIABLES tok,       \* slot -> token currently in the slot
          anc,       \* token -> set of tokens recorded as ancestors
          chld,      \* token -> set of tokens registered as children
          next,      \* next fresh token
          sims,      \* sequence of [prev, new : Seq(token), slots : Seq(slot), set : BOOLEAN], in order of creation
          latest,    \* what system.simulation designates: 0 = none, k = sims[k], MaxSims + 1 = a simulation that was refused
          base,      \* the baseline: [tok : slot -> token, chld : token -> children] as left by the last accepted edit
          out        \* outcome of the last action
vars == <<tok, anc, chld, next, sims, latest, base, out>>
AnySet == \E k \in DOMAIN sims : sims[k].set

Tok0 == [s \in Slots |-> CASE s = "in1" -> 1 [] s = "a1" -> 2 [] s = "a2" -> 3 [] s = "r1" -> 4 [] s = "r2" -> 5]
Anc0 == [t \in 1..5 |-> CASE t = 4 -> {1, 2} [] t = 5 -> {4, 3} [] OTHER -> {}]
Chld0 == [t \in 1..5 |-> {c \in 1..5 : t \in Anc0[c]}]

Init == tok = Tok0 /\ anc = Anc0 /\ chld = Chld0 /\ next = 6 /\ sims = <<>> /\ latest = 0 /\ base = [tok |-> Tok0, chld |-> Chld0] /\ out = "init"

(* world W = [tok, anc, chld, next]; replacing the content of a slot detaches the old token (it unregisters  *)
(* from its ancestors' children) and attaches the new one (it registers)                                      *)
Put(W, s, t) ==
    LET old == W.tok[s]
        c1 == [x \in DOMAIN W.chld |-> IF x \in W.anc[old] THEN W.chld[x] \ {old} ELSE W.chld[x]]
        c2 == [x \in DOMAIN c1 |-> IF x \in W.anc[t] THEN c1[x] \cup {t} ELSE c1[x]]
    IN  [W EXCEPT !.tok[s] = t, !.chld = c2]
(* a fresh token whose ancestors are the tokens currently in the slots it reads *)
Fresh(W, ancestors) ==
    [W EXCEPT !.anc = [x \in DOMAIN W.anc \cup {W.next} |-> IF x = W.next THEN ancestors ELSE W.anc[x]],
              !.chld = [x \in DOMAIN W.chld \cup {W.next} |-> IF x = W.next THEN {} ELSE W.chld[x]],
              !.next = W.next + 1]
World == [tok |-> tok, anc |-> anc, chld |-> chld, next |-> next]

(* one step of the creation sequence: replace slot s by a fresh token *)
Replace(W, s, ancestors) == LET W1 == Fresh(W, ancestors) IN Put(W1, s, W.next)

SimSteps == IF Structural THEN <<"a1", "a2", "in1", "check", "r1", "r2">> ELSE <<"a1", "in1", "check", "r1", "r2">>
PlainSteps == <<"in1", "check", "r1", "r2">>

RECURSIVE Run(_, _, _, _, _)
(* executes Steps[i..]; failAt = 0 never fails; returns [W, prev, new, slots, failed] *)
Run(W, i, failAt, acc, Steps) ==
    IF i > Len(Steps) THEN [W |-> W, prev |-> acc.prev, new |-> acc.new, slots |-> acc.slots, failed |-> FALSE]
    ELSE IF i = failAt THEN [W |-> W, prev |-> acc.prev, new |-> acc.new, slots |-> acc.slots, failed |-> TRUE]
    ELSE LET s == Steps[i] IN
         IF s = "check" THEN Run(W, i + 1, failAt, acc, Steps)
         ELSE LET ancestors == IF s \in {"r1", "r2"} THEN {W.tok[x] : x \in ReadsOf(s)}
                               ELSE W.anc[W.tok[s]]          \* a copy / truncated copy / new input keeps no new parents
                  W2 == Replace(W, s, IF s \in {"a1", "a2", "in1"} THEN {} ELSE ancestors)
              IN  Run(W2, i + 1, failAt, [prev |-> Append(acc.prev, W.tok[s]), new |-> Append(acc.new, W.next),
                                          slots |-> Append(acc.slots, s)], Steps)

RECURSIVE Swap(_, _, _, _)
Swap(W, slots, toks, i) == IF i > Len(slots) THEN W ELSE Swap(Put(W, slots[i], toks[i]), slots, toks, i + 1)
RECURSIVE SwapBack(_, _, _, _)
SwapBack(W, slots, toks, i) == IF i < 1 THEN W ELSE SwapBack(Put(W, slots[i], toks[i]), slots, toks, i - 1)

Install(W, s, l, o) == tok' = W.tok /\ anc' = W.anc /\ chld' = W.chld /\ next' = W.next /\ sims' = s /\ latest' = l /\ out' = o /\ UNCHANGED base
Installed(W) == {W.tok[s] : s \in Slots}

Create(failAt) ==
    /\ ~AnySet
    /\ Len(sims) < MaxSims
    /\ next < 40
    /\ LET r == Run(World, 1, failAt, [prev |-> <<>>, new |-> <<>>, slots |-> <<>>], SimSteps) IN
       IF r.failed
       THEN IF RestoreOnFailure THEN Install(SwapBack(r.W, r.slots, r.prev, Len(r.slots)), sims, MaxSims + 1, "raised")
            ELSE Install(r.W, sims, MaxSims + 1, "raised")
       ELSE Install(Swap(r.W, r.slots, r.prev, 1), Append(sims, [prev |-> r.prev, new |-> r.new, slots |-> r.slots, set |-> FALSE]),
                    Len(sims) + 1, "created")

(* an ordinary (undated) edit of in1: the new values stay; the simulations created on the previous baseline are forgotten *)
Update(failAt) ==
    /\ ~AnySet
    /\ next < 40
    /\ LET r == Run(World, 1, failAt, [prev |-> <<>>, new |-> <<>>, slots |-> <<>>], PlainSteps) IN
       IF r.failed
       THEN IF RestoreOnFailure THEN Install(SwapBack(r.W, r.slots, r.prev, Len(r.slots)), sims, latest, "update-raised")
            ELSE Install(r.W, sims, latest, "update-raised")
       ELSE /\ tok' = r.W.tok /\ anc' = r.W.anc /\ chld' = r.W.chld /\ next' = r.W.next /\ sims' = <<>> /\ latest' = 0 /\ out' = "updated"
            /\ base' = [tok |-> r.W.tok, chld |-> [t \in Installed(r.W) |-> r.W.chld[t]]]

(* one simulation at a time is switched on (the others were made on the same baseline and know nothing of its values) *)
SetValues(k) ==
    /\ k \in DOMAIN sims
    /\ \A j \in DOMAIN sims : j # k => ~sims[j].set
    /\ IF sims[k].set THEN UNCHANGED vars
       ELSE Install(Swap(World, sims[k].slots, sims[k].new, 1), [sims EXCEPT ![k].set = TRUE], latest, "set")
ResetValues(k) ==
    /\ k \in DOMAIN sims
    /\ IF ~sims[k].set THEN UNCHANGED vars
       ELSE IF ResetOnlyLatest /\ latest # k THEN Install(World, sims, latest, "reset")      \* (seeded change) returns without doing anything
       ELSE Install(Swap(World, sims[k].slots, sims[k].prev, 1), [sims EXCEPT ![k].set = FALSE], latest, "reset")

Next == (\E f \in 0..Len(SimSteps) : Create(f)) \/ (\E f \in 0..Len(PlainSteps) : Update(f))
        \/ (\E k \in 1..MaxSims : SetValues(k) \/ ResetValues(k))
Spec == Init /\ [][Next]_vars

(******************************* properties ********************************)
BaselineMode == ~AnySet
(* the very same value objects, and the same dependency graph among them *)
BaselineIntact ==
    BaselineMode => /\ tok = base.tok
                    /\ \A t \in DOMAIN base.chld : chld[t] = base.chld[t]
(* the graph among the installed values is closed and listed on both ends: no installed value keeps a superseded ancestor *)
GraphClosed ==
    BaselineMode => LET live == {tok[s] : s \in Slots} IN
                    /\ \A t \in live : anc[t] \subseteq live
                    /\ \A t \in live : chld[t] = {c \in live : t \in anc[c]}
(* an update or a simulation that raises changes nothing observable *)
AllOrNothing ==
    [][out' \in {"raised", "update-raised"} => (tok' = tok /\ \A s \in Slots : chld'[tok[s]] = chld[tok[s]])]_vars
TwinsPaired == \A k \in DOMAIN sims : Len(sims[k].prev) = Len(sims[k].new) /\ Len(sims[k].new) = Len(sims[k].slots)
SimulatedValuesInstalled == \A k \in DOMAIN sims : sims[k].set => \A i \in DOMAIN sims[k].slots : tok[sims[k].slots[i]] = sims[k].new[i]
(* a simulation that was asked to switch off is off: whatever was made on the system since, reset_values puts the baseline back *)
ResetSwitchesOff == [][out' = "reset" => ~AnySet']_vars
(* garbage tokens grow without bound: only what is observable identifies a state *)
(* (a renaming of tokens would make the state space finite; instead the number of fresh tokens is bounded: next < 40) *)
View == <<tok, [s \in Slots |-> chld[tok[s]]], base, sims, latest, out>>
=============================================================================
