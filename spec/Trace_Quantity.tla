----------------------------- MODULE Trace_Quantity -----------------------------
(* Recorded operations on real ExplainableQuantity / ExplainableHourlyQuantities / EmptyExplainableObject values. *)
EXTENDS EFQuantity, Json
CONSTANTS TraceFile
Events == ndJsonDeserialize(TraceFile)
N == Len(Events)
VARIABLES i
vars == <<i>>
Line(kind, e, clause, data) ==
    PrintT(kind \o "|" \o ToString(e.tid) \o "|" \o ToString(e.seq) \o "|" \o clause \o "|" \o ToString(data))
Fail(e, clause, data) == Line("FAIL", e, clause, data)
SeqSetQ(s) == {s[n] : n \in DOMAIN s}
DimOf(j) == Norm([k \in {p[1] : p \in SeqSetQ(j)} |-> (CHOOSE p \in SeqSetQ(j) : p[1] = k)[2]])
Value(j) ==
    CASE j.kind = "E" -> E
      [] j.kind = "Q" -> Q(DimOf(j.dim), j.v)
      [] j.kind = "H" -> H(DimOf(j.dim), [h \in SeqSetQ(j.h) |-> j.vals[CHOOSE n \in DOMAIN j.h : j.h[n] = h]], j.aware)
      [] j.kind = "X" -> X(j.exc)
      [] OTHER -> [kind |-> "N", v |-> j.v]
Check(e) ==
    LET l == Value(e.l)
        want == IF e.arity = 2 THEN (IF e.op \in {"max", "min"} THEN Compare(e.op, l, Value(e.r)) ELSE Apply(e.op, l, Value(e.r)))
                ELSE Apply1U(e.op, l, e.arg, e.sn, e.sd)
        got == Value(e.res)
    IN
    /\ IF want.kind = "X" /\ want.exc \in {"inexact", "unspecified"} THEN TRUE
       ELSE IF want.kind = "X" THEN (IF got.kind # "X" THEN Fail(e, "should-raise:" \o e.op, <<want.exc, "got", got>>) ELSE TRUE)
       ELSE IF ~SameValue(want, got) THEN Fail(e, "result-differs:" \o e.op, <<"spec", want, "code", got>>) ELSE TRUE
    /\ IF ~SameValue(l, Value(e.l_after)) THEN Fail(e, "left-operand-changed:" \o e.op, <<l, Value(e.l_after)>>) ELSE TRUE
    /\ IF e.arity = 2 /\ ~SameValue(Value(e.r), Value(e.r_after)) THEN Fail(e, "right-operand-changed:" \o e.op, <<>>) ELSE TRUE
Step == i < N /\ i' = i + 1 /\ Check(Events[i + 1])
Init == i = 0
Next == Step
Spec == Init /\ [][Next]_vars
AllConsumed == TLCGet("stats").diameter - 1 = N
=============================================================================
