------------------------------ MODULE EFQuantity ------------------------------
(***************************************************************************)
(* Unit-safe arithmetic of explainable quantities (C09), as implemented in  *)
(* abstract_modeling_classes/explainable_objects.py.                        *)
(* A value is a record                                                     *)
(*   [kind |-> "E"]                                   the empty value       *)
(*   [kind |-> "Q", dim, v]                           scalar: physical      *)
(*        magnitude v (integer, in base units) and dimension vector dim     *)
(*        (function from base-dimension names to exponents, zeros omitted)  *)
(*   [kind |-> "H", dim, s, aware]                    hourly series s       *)
(*        (hour -> magnitude), index time-zone aware or naive               *)
(*   [kind |-> "X", exc]                              the operation raises  *)
(*   [kind |-> "N", v]                                a plain number        *)
(***************************************************************************)
EXTENDS Integers, Sequences, FiniteSets, TLC

E == [kind |-> "E"]
Q(dim, v) == [kind |-> "Q", dim |-> dim, v |-> v]
H(dim, s, aware) == [kind |-> "H", dim |-> dim, s |-> s, aware |-> aware]
X(exc) == [kind |-> "X", exc |-> exc]

Get(d, k) == IF k \in DOMAIN d THEN d[k] ELSE 0
Norm(d) == [k \in {x \in DOMAIN d : d[x] # 0} |-> d[k]]
DimAdd(a, b) == Norm([k \in DOMAIN a \cup DOMAIN b |-> Get(a, k) + Get(b, k)])
DimSub(a, b) == Norm([k \in DOMAIN a \cup DOMAIN b |-> Get(a, k) - Get(b, k)])
SameDim(a, b) == Norm(a) = Norm(b)

ValAt(s, h) == IF h \in DOMAIN s THEN s[h] ELSE 0
Union(a, b) == DOMAIN a \cup DOMAIN b
AbsV(x) == IF x < 0 THEN -x ELSE x
Divides(a, b) == b # 0 /\ AbsV(a) % AbsV(b) = 0
ExactDiv(a, b) == (IF (a < 0) = (b < 0) THEN 1 ELSE -1) * (AbsV(a) \div AbsV(b))

(* binary operators: op in {"+", "-", "*", "/"}; l is the left operand *)
Apply(op, l, r) ==
    LET lk == l.kind  rk == r.kind IN
    CASE op = "+" ->
           CASE lk = "E" /\ rk = "E" -> E
             [] lk = "E" -> r
             [] rk = "E" -> l
             [] lk = "Q" /\ rk = "Q" -> IF SameDim(l.dim, r.dim) THEN Q(l.dim, l.v + r.v) ELSE X("DimensionalityError")
             [] lk = "H" /\ rk = "H" ->
                  IF l.aware # r.aware THEN X("TypeError")
                  ELSE IF ~SameDim(l.dim, r.dim) THEN X("DimensionalityError")
                  ELSE H(l.dim, [h \in Union(l.s, r.s) |-> ValAt(l.s, h) + ValAt(r.s, h)], l.aware)
             [] OTHER -> X("ValueError")                       \* scalar + hourly is refused
      [] op = "-" ->
           CASE lk = "E" /\ rk = "E" -> E
             [] lk = "E" -> X("ValueError")
             [] rk = "E" -> l
             [] lk = "Q" /\ rk = "Q" -> IF SameDim(l.dim, r.dim) THEN Q(l.dim, l.v - r.v) ELSE X("DimensionalityError")
             [] lk = "H" /\ rk = "H" ->
                  IF l.aware # r.aware THEN X("TypeError")
                  ELSE IF ~SameDim(l.dim, r.dim) THEN X("DimensionalityError")
                  ELSE IF DOMAIN l.s # DOMAIN r.s THEN X("unspecified")     \* not defined hour by hour
                  ELSE H(l.dim, [h \in DOMAIN l.s |-> l.s[h] - r.s[h]], l.aware)
             [] OTHER -> X("ValueError")
      [] op = "*" ->
           CASE lk = "E" \/ rk = "E" -> E
             [] lk = "Q" /\ rk = "Q" -> Q(DimAdd(l.dim, r.dim), l.v * r.v)
             [] lk = "H" /\ rk = "Q" -> H(DimAdd(l.dim, r.dim), [h \in DOMAIN l.s |-> l.s[h] * r.v], l.aware)
             [] lk = "Q" /\ rk = "H" -> H(DimAdd(l.dim, r.dim), [h \in DOMAIN r.s |-> r.s[h] * l.v], r.aware)
             [] OTHER -> IF l.aware # r.aware THEN X("TypeError")
                         ELSE H(DimAdd(l.dim, r.dim), [h \in Union(l.s, r.s) |-> ValAt(l.s, h) * ValAt(r.s, h)], l.aware)
      [] op = "/" ->
           CASE lk = "E" /\ rk = "Q" -> E
             [] lk = "E" \/ rk = "E" -> X("ValueError")
             [] lk = "Q" /\ rk = "Q" -> IF Divides(l.v, r.v) THEN Q(DimSub(l.dim, r.dim), ExactDiv(l.v, r.v)) ELSE X("inexact")
             [] lk = "H" /\ rk = "Q" ->
                  IF \A h \in DOMAIN l.s : Divides(l.s[h], r.v)
                  THEN H(DimSub(l.dim, r.dim), [h \in DOMAIN l.s |-> ExactDiv(l.s[h], r.v)], l.aware) ELSE X("inexact")
             [] lk = "Q" /\ rk = "H" ->
                  IF \A h \in DOMAIN r.s : Divides(l.v, r.s[h])
                  THEN H(DimSub(l.dim, r.dim), [h \in DOMAIN r.s |-> ExactDiv(l.v, r.s[h])], r.aware) ELSE X("inexact")
             [] OTHER -> X("NotImplementedError")

RECURSIVE SumF(_, _)
SumF(s, D) == IF D = {} THEN 0 ELSE LET x == CHOOSE y \in D : TRUE IN s[x] + SumF(s, D \ {x})
MaxF(s) == CHOOSE x \in {s[h] : h \in DOMAIN s} : \A h \in DOMAIN s : s[h] <= x
AbsI(x) == IF x < 0 THEN -x ELSE x

(* ceil and round act on the magnitude expressed in the operand's CURRENT unit, which is worth sn / sd base units *)
CeilDiv(n, d) == -((-n) \div d)                                 \* d > 0
RoundDiv(n, d) == (2 * n + d) \div (2 * d)                      \* d > 0, ties excluded by Tie
Tie(n, d) == (2 * n + d) % (2 * d) = 0
CeilIn(v, sn, sd) == CeilDiv(v * sd, sn) * sn                    \* times sd
RoundIn(v, sn, sd) == RoundDiv(100 * v * sd, sn) * sn            \* times 100 * sd   (rounding to 2 decimals)
Pointwise(a, f(_), ok(_)) ==
    IF a.kind = "Q" THEN (IF ok(a.v) THEN Q(a.dim, f(a.v)) ELSE X("inexact"))
    ELSE IF \A h \in DOMAIN a.s : ok(a.s[h]) THEN H(a.dim, [h \in DOMAIN a.s |-> f(a.s[h])], a.aware) ELSE X("inexact")

(* unary helpers; arg is an integer argument (shift in whole hours); sn / sd: base units per current unit of the operand *)
Apply1U(op, a, arg, sn, sd) ==
    CASE a.kind = "E" -> E
      [] op = "ceil" /\ a.kind \in {"Q", "H"} ->
           Pointwise(a, LAMBDA v : ExactDiv(CeilIn(v, sn, sd), sd), LAMBDA v : Divides(CeilIn(v, sn, sd), sd) \/ CeilIn(v, sn, sd) = 0)
      [] op = "round" /\ a.kind \in {"Q", "H"} ->
           Pointwise(a, LAMBDA v : ExactDiv(RoundIn(v, sn, sd), 100 * sd),
                     LAMBDA v : ~Tie(100 * v * sd, sn) /\ (Divides(RoundIn(v, sn, sd), 100 * sd) \/ RoundIn(v, sn, sd) = 0))
      [] op = "sum" /\ a.kind = "H" -> Q(a.dim, SumF(a.s, DOMAIN a.s))
      [] op = "max" /\ a.kind = "H" -> Q(a.dim, MaxF(a.s))
      [] op = "abs" /\ a.kind = "H" -> H(a.dim, [h \in DOMAIN a.s |-> AbsI(a.s[h])], a.aware)
      [] op = "neg" /\ a.kind = "H" -> H(a.dim, [h \in DOMAIN a.s |-> -a.s[h]], a.aware)
      [] op = "copy" -> a
      [] op = "radd0" -> a                                        \* 0 + a, the implicit start value of sum()
      [] op = "shift" /\ a.kind = "H" -> H(a.dim, [h \in {x + arg : x \in DOMAIN a.s} |-> a.s[h - arg]], a.aware)

Apply1(op, a, arg) == Apply1U(op, a, arg, 1, 1)                 \* magnitudes that are integers in their own unit

(* element-wise max / min of two hourly values (or an hourly value and the empty value) *)
Compare(cmp, l, r) ==
    LET rs == IF r.kind = "E" THEN [h \in {} |-> 0] ELSE r.s
        pick(x, y) == IF cmp = "max" THEN (IF x >= y THEN x ELSE y) ELSE (IF x <= y THEN x ELSE y)
    IN  IF l.kind = "E" /\ r.kind = "E" THEN E
        ELSE IF l.kind = "E" THEN H(r.dim, [h \in DOMAIN r.s |-> pick(r.s[h], 0)], r.aware)
        ELSE H(l.dim, [h \in DOMAIN l.s \cup DOMAIN rs |-> pick(ValAt(l.s, h), ValAt(rs, h))], l.aware)

(* physical equality of two results *)
SameValue(a, b) ==
    /\ a.kind = b.kind
    /\ CASE a.kind = "Q" -> SameDim(a.dim, b.dim) /\ a.v = b.v
         [] a.kind = "H" -> SameDim(a.dim, b.dim) /\ a.aware = b.aware /\
                            \A h \in Union(a.s, b.s) : ValAt(a.s, h) = ValAt(b.s, h)
         [] a.kind = "X" -> a.exc = b.exc
         [] OTHER -> TRUE
=============================================================================
