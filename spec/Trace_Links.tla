------------------------------ MODULE Trace_Links ------------------------------
(***************************************************************************)
(* Validation of recorded link edits of the real code (C16).                *)
(* State: the topology of EFCore.  Events:                                  *)
(*   Create     T                                                           *)
(*   ListOp     obj, attr, op (record of EFPyList), exc                     *)
(*   SetList    obj, attr, new        SetLink  obj, attr, new               *)
(*   GroupSet   changes (several link / list changes in one update)        *)
(*   SelfDelete obj, exc                                                    *)
(*   CrossLink  what, exc, two_systems   (an attempt to link an object that *)
(*              belongs to another system)                                  *)
(* each carrying the topology read back from the real objects after the     *)
(* operation (T2), every reverse look-up the classes expose (rev) and       *)
(* whether every live list / wrapper is attached to its container.          *)
(* Clauses: content follows Python list semantics (value and exception),    *)
(* everything else is unchanged (frame), reverse look-ups are exactly the   *)
(* inverse of the forward links, a referenced object cannot be deleted, a   *)
(* cross-system link is refused.                                            *)
(***************************************************************************)
EXTENDS EFCore, Json

CONSTANTS TraceFile

Events == ndJsonDeserialize(TraceFile)
N == Len(Events)

VARIABLES i, cur
vars == <<i, cur>>

Topo(j) ==
    [ups |-> SeqSet(j.ups), ujs |-> SeqSet(j.ujs), steps |-> SeqSet(j.steps), jobs |-> SeqSet(j.jobs),
     servers |-> SeqSet(j.servers), storages |-> SeqSet(j.storages), nets |-> SeqSet(j.nets),
     countries |-> SeqSet(j.countries), devices |-> SeqSet(j.devices),
     uj |-> j.uj, net |-> j.net, country |-> j.country, devs |-> j.devs,
     stepsOf |-> j.stepsOf, jobsOf |-> j.jobsOf, server |-> j.server, storage |-> j.storage,
     sysups |-> j.sysups]

Line(kind, e, clause, data) ==
    PrintT(kind \o "|" \o ToString(e.tid) \o "|" \o ToString(e.seq) \o "|" \o clause \o "|" \o ToString(data))
Fail(e, clause, data) == Line("FAIL", e, clause, data)

Op(o) == [name |-> o.name, x |-> o.x, i |-> o.i, l |-> o.l, n |-> o.n]

SysSet(T, o) == IF HasSystem(T, o) THEN {SYS} ELSE {}

RevOK(e, T) ==
    LET r == e.rev
        bad == {<<"server.jobs", v>> : v \in {x \in T.servers : SeqSet(r.server_jobs[x]) # JobsOfServer(T, x)}}
          \cup {<<"storage.server", t>> : t \in {x \in T.storages : SeqSet(r.storage_servers[x]) # ServersOfStorage(T, x)}}
          \cup {<<"journey.usage_patterns", u>> : u \in {x \in T.ujs : SeqSet(r.uj_ups[x]) # UPsOfUJ(T, x)}}
          \cup {<<"network.usage_patterns", n>> : n \in {x \in T.nets : SeqSet(r.net_ups[x]) # UPsOfNet(T, x)}}
          \cup {<<"country.usage_patterns", c>> : c \in {x \in T.countries : SeqSet(r.country_ups[x]) # UPsOfCountry(T, x)}}
          \cup {<<"device.containers", d>> : d \in {x \in T.devices : SeqSet(r.device_ups[x]) # UPsOfDevice(T, x)}}
          \cup {<<"step.usage_journeys", s>> : s \in {x \in T.steps : SeqSet(r.step_ujs[x]) # UJsOfStep(T, x)}}
          \cup {<<"job.usage_journey_steps", j>> : j \in {x \in T.jobs : SeqSet(r.job_steps[x]) # StepsOfJob(T, x)}}
          \cup {<<"job.usage_patterns", j>> : j \in {x \in T.jobs : SeqSet(r.job_ups[x]) # UPsOfJob(T, x)}}
          \cup {<<"systems", o>> : o \in {x \in AllObjs(T) \ {SYS} : SeqSet(r.systems[x]) # SysSet(T, x)}}
    IN  IF bad # {} THEN Fail(e, "reverse-lookup-differs-from-forward-links", bad) ELSE TRUE

Common(e, T2, expected) ==
    /\ IF T2 # expected THEN Fail(e, "topology-after-differs-from-python-model",
                                  <<"differs in", {f \in DOMAIN T2 : T2[f] # expected[f]}>>) ELSE TRUE
    /\ RevOK(e, T2)
    /\ IF ~e.attached_ok THEN Fail(e, "live-list-or-wrapper-detached", e.detached) ELSE TRUE

CheckListOp(e, T) ==
    LET T2 == Topo(e.T2)
        r == PyOp(ListOf(T, e.obj, e.attr), Op(e.op))
        expected == IF r.ok THEN ApplyOne(T, [kind |-> "list", obj |-> e.obj, attr |-> e.attr, new |-> r.val]) ELSE T
    IN  /\ IF e.exc # r.exc THEN Fail(e, "outcome-differs-from-python", <<"python", r.exc, "got", e.exc>>) ELSE TRUE
        /\ Common(e, T2, expected)

CheckSet(e, T, kind) ==
    LET T2 == Topo(e.T2)
        expected == ApplyOne(T, [kind |-> kind, obj |-> e.obj, attr |-> e.attr, new |-> e.new])
    IN  /\ IF e.exc # "none" THEN Fail(e, "valid-link-edit-raised", e.exc) ELSE TRUE
        /\ Common(e, T2, expected)

(* one ModelingUpdate carrying several link / list changes (possibly to the same target) *)
GroupChanges(e) == [n \in DOMAIN e.changes |->
    [kind |-> e.changes[n].kind, obj |-> e.changes[n].obj, attr |-> e.changes[n].attr,
     new |-> IF e.changes[n].kind = "link" THEN e.changes[n].news ELSE e.changes[n].newl]]
CheckGroup(e, T) ==
    LET T2 == Topo(e.T2)
        expected == ApplyAll(T, GroupChanges(e), 1)
    IN  /\ IF e.exc # "none" THEN Fail(e, "valid-link-edit-raised", e.exc) ELSE TRUE
        /\ Common(e, T2, expected)

CheckDelete(e, T) ==
    LET T2 == Topo(e.T2)
        referenced == ContainersOf(T, e.obj) # {}
        expected == IF referenced THEN T ELSE RemoveObj(T, e.obj)
    IN  /\ IF referenced /\ e.exc # "PermissionError" THEN Fail(e, "referenced-object-deleted", ContainersOf(T, e.obj)) ELSE TRUE
        /\ IF ~referenced /\ e.exc # "none" THEN Fail(e, "unreferenced-object-not-deletable", e.exc) ELSE TRUE
        /\ Common(e, T2, expected)

CheckCross(e, T) ==
    /\ IF e.exc = "none" THEN Fail(e, "cross-system-link-accepted", e.what) ELSE TRUE
    /\ IF e.two_systems # <<>> THEN Fail(e, "object-in-two-systems", e.two_systems) ELSE TRUE

Step ==
    /\ i < N
    /\ i' = i + 1
    /\ LET e == Events[i + 1]
           T == IF e.tid \in DOMAIN cur THEN cur[e.tid] ELSE Topo(e.T2)
       IN
       /\ CASE e.ev = "Create" -> RevOK(e, Topo(e.T2))
            [] e.ev = "ListOp" -> CheckListOp(e, T)
            [] e.ev = "SetList" -> CheckSet(e, T, "list")
            [] e.ev = "SetLink" -> CheckSet(e, T, "link")
            [] e.ev = "GroupSet" -> CheckGroup(e, T)
            [] e.ev = "SelfDelete" -> CheckDelete(e, T)
            [] e.ev = "CrossLink" -> CheckCross(e, T)
       /\ cur' = [t \in DOMAIN cur \cup {e.tid} |-> IF t = e.tid THEN Topo(e.T2) ELSE cur[t]]

Init == i = 0 /\ cur = <<>>
Next == Step
Spec == Init /\ [][Next]_vars
AllConsumed == TLCGet("stats").diameter - 1 = N
=============================================================================
