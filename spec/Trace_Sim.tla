------------------------------ MODULE Trace_Sim ------------------------------
(***************************************************************************)
(* Recorded what-if simulations of the real code (C05, C06).                *)
(* Events of one history (tid):                                             *)
(*   Baseline  the observable state before the simulation:                  *)
(*             tok  : slot -> identity of the value object (small integer)  *)
(*             chld : token -> children tokens, anc : token -> ancestors    *)
(*             val  : slot -> class of numerically equal values             *)
(*             links: forward links of every object                         *)
(*   SimCreate outcome created / raised, the state after it, and for a      *)
(*             created simulation the recomputed slots with their twins,    *)
(*             the first hour of each simulated series, the date            *)
(*   SimSet / SimReset  the state after the toggle                          *)
(*   PlainUpdate  an undated ModelingUpdate, accepted or refused           *)
(*   SimProbe  a simulation of one input at an interior date (systematic   *)
(*             sweep over the inputs of a system): recomputed slots only    *)
(*   RealUpdate  value classes after really applying the same changes to a  *)
(*             rebuilt copy of the system (same class numbering)            *)
(* The protocol is EFSim's: whenever the simulated values are not set the   *)
(* observable state is the baseline's.                                      *)
(***************************************************************************)
EXTENDS Naturals, Integers, Sequences, FiniteSets, TLC, Json

CONSTANTS TraceFile, Focus      \* Focus: "C05" | "C06" | "both"
Events == ndJsonDeserialize(TraceFile)
N == Len(Events)
VARIABLES i, base, sim, simval, isSet
vars == <<i, base, sim, simval, isSet>>

SeqSetS(s) == {s[n] : n \in DOMAIN s}
Line(kind, e, clause, data) ==
    PrintT(kind \o "|" \o ToString(e.tid) \o "|" \o ToString(e.seq) \o "|" \o clause \o "|" \o ToString(data))
Fail(e, clause, data) == Line("FAIL", e, clause, data)
C05 == Focus \in {"C05", "both"}
C06 == Focus \in {"C06", "both"}
C15 == Focus \in {"C15", "both"}

ChildSets(e, tokens) == [t \in tokens |-> IF ToString(t) \in DOMAIN e.chld THEN SeqSetS(e.chld[ToString(t)]) ELSE {}]
AncSets(e, tokens) == [t \in tokens |-> IF ToString(t) \in DOMAIN e.anc THEN SeqSetS(e.anc[ToString(t)]) ELSE {}]

SameAsBaseline(e, why) ==
    LET btoks == {base.tok[s] : s \in DOMAIN base.tok} IN
    /\ IF DOMAIN e.tok # DOMAIN base.tok \/ \E s \in DOMAIN base.tok \cap DOMAIN e.tok : e.tok[s] # base.tok[s]
       THEN Fail(e, "baseline-value-object-replaced:" \o why,
                 {s \in DOMAIN base.tok : s \notin DOMAIN e.tok \/ e.tok[s] # base.tok[s]} \cup (DOMAIN e.tok \ DOMAIN base.tok))
       ELSE TRUE
    /\ IF \E s \in DOMAIN base.val \cap DOMAIN e.val : e.val[s] # base.val[s]
       THEN Fail(e, "baseline-value-changed:" \o why, {s \in DOMAIN base.val \cap DOMAIN e.val : e.val[s] # base.val[s]}) ELSE TRUE
    /\ IF e.links # base.links THEN Fail(e, "baseline-links-changed:" \o why, {o \in DOMAIN base.links : e.links[o] # base.links[o]}) ELSE TRUE
    /\ IF ChildSets(e, btoks) # ChildSets(base, btoks)
       THEN Fail(e, "baseline-graph-children-changed:" \o why,
                 {t \in btoks : ChildSets(e, btoks)[t] # ChildSets(base, btoks)[t]}) ELSE TRUE
    /\ IF AncSets(e, btoks) # AncSets(base, btoks)
       THEN Fail(e, "baseline-graph-ancestors-changed:" \o why, {t \in btoks : AncSets(e, btoks)[t] # AncSets(base, btoks)[t]}) ELSE TRUE

CheckCreate(e) ==
    /\ IF C05 THEN SameAsBaseline(e, "after-create-" \o e.outcome) ELSE TRUE
    /\ IF C06 /\ e.date_kind \in {"before", "after", "naive"} /\ e.outcome # "raised"
       THEN Fail(e, "bad-simulation-date-accepted", e.date_kind) ELSE TRUE
    /\ IF C06 /\ e.date_kind \in {"first", "interior", "last"} /\ e.expect_ok /\ e.outcome = "raised"
       THEN (IF e.date_kind = "first" /\ e.period_refusal
             THEN Fail(e, IF e.hourly_input_changed
                          THEN "first-hour-simulation-refused-as-outside-the-modelled-period(hourly-input-replaced)"
                          ELSE "first-hour-simulation-refused-as-outside-the-modelled-period", e.exc)
             ELSE Line("NOTE", e, "valid-simulation-refused", e.exc)) ELSE TRUE
    /\ IF C06 /\ e.outcome = "created"
       THEN /\ IF \E n \in DOMAIN e.recomputed : ~e.recomputed[n].twin_ok
               THEN Fail(e, "twins-not-paired", {e.recomputed[n].slot : n \in {m \in DOMAIN e.recomputed : ~e.recomputed[m].twin_ok}}) ELSE TRUE
            /\ IF Len(e.recomputed) # e.n_values_to_recompute
               THEN Fail(e, "recomputed-values-count-differs", <<Len(e.recomputed), e.n_values_to_recompute>>) ELSE TRUE
            /\ IF e.all_ups_active /\ \E n \in DOMAIN e.recomputed : e.recomputed[n].min_hour >= 0 /\ e.recomputed[n].min_hour < e.date_hour
               THEN Fail(e, IF e.hourly_input_changed THEN "simulated-series-has-hour-before-the-date(hourly-input-replaced)"
                            ELSE IF e.timeline_shifted THEN "simulated-series-has-hour-before-the-date(usage-pattern-moved-to-another-time-zone)"
                            ELSE "simulated-series-has-hour-before-the-date",
                         {<<e.recomputed[n].slot, e.recomputed[n].min_hour>> : n \in {m \in DOMAIN e.recomputed :
                              e.recomputed[m].min_hour >= 0 /\ e.recomputed[m].min_hour < e.date_hour}}) ELSE TRUE
       ELSE TRUE

CheckProbe(e) ==       \* a simulation of one input of a system, judged on the recomputed values only
    /\ IF C06 /\ \E n \in DOMAIN e.recomputed : ~e.recomputed[n].twin_ok
       THEN Fail(e, "twins-not-paired", {e.recomputed[n].slot : n \in {m \in DOMAIN e.recomputed : ~e.recomputed[m].twin_ok}}) ELSE TRUE
    /\ IF C06 /\ Len(e.recomputed) # e.n_values_to_recompute
       THEN Fail(e, "recomputed-values-count-differs", <<Len(e.recomputed), e.n_values_to_recompute>>) ELSE TRUE
    /\ IF C06 /\ e.all_ups_active /\ \E n \in DOMAIN e.recomputed : e.recomputed[n].min_hour >= 0 /\ e.recomputed[n].min_hour < e.date_hour
       THEN Fail(e, IF e.timeline_shifted THEN "simulated-series-has-hour-before-the-date(usage-pattern-moved-to-another-time-zone)"
                    ELSE "simulated-series-has-hour-before-the-date",
                 {<<e.recomputed[n].slot, e.recomputed[n].min_hour>> : n \in {m \in DOMAIN e.recomputed :
                      e.recomputed[m].min_hour >= 0 /\ e.recomputed[m].min_hour < e.date_hour}}) ELSE TRUE

(* an undated update (EFSim.Update): refused -> nothing changed (same value objects, same graph); accepted -> among the values *)
(* of the objects reachable from the system, every recorded ancestor is a value currently held by the model and the      *)
(* dependency is listed on both ends                                                                                     *)
AncOf(e, t) == IF ToString(t) \in DOMAIN e.anc THEN SeqSetS(e.anc[ToString(t)]) ELSE {}
ChildOf(e, t) == IF ToString(t) \in DOMAIN e.chld THEN SeqSetS(e.chld[ToString(t)]) ELSE {}
CheckPlain(e) ==
    IF ~C15 THEN TRUE
    ELSE IF e.outcome = "raised" THEN SameAsBaseline(e, "after-update-raised")
    ELSE LET held == {e.tok[s] : s \in DOMAIN e.tok}
             live == SeqSetS(e.live_toks)           \* values held by the objects reachable from the system
             dangling == {t \in live : ~(AncOf(e, t) \subseteq held)}
             oneEnd == {t \in live : (ChildOf(e, t) \cap live) # {c \in live : t \in AncOf(e, c)}}
         IN  /\ IF dangling # {} THEN Fail(e, "installed-value-keeps-a-superseded-ancestor:after-update", dangling) ELSE TRUE
             /\ IF oneEnd # {} THEN Fail(e, "dependency-listed-on-one-end-only:after-update", oneEnd) ELSE TRUE

CheckSet(e) ==
    /\ IF C05 /\ \E n \in DOMAIN sim.recomputed :
                    sim.recomputed[n].slot \in DOMAIN e.tok /\ e.tok[sim.recomputed[n].slot] # sim.recomputed[n].sim_tok
       THEN Fail(e, "set-did-not-install-the-simulated-value", <<>>) ELSE TRUE

CheckReal(e) ==
    \* at the first hour nothing is truncated: the whole simulated state must be the really updated one
    LET slots == DOMAIN e.val \cap DOMAIN simval
        bad == {s \in slots : e.val[s] # simval[s]} \cup (DOMAIN e.val \ DOMAIN simval) \cup (DOMAIN simval \ DOMAIN e.val)
    IN  IF C06 /\ sim.date_kind = "first" /\ bad # {} THEN Fail(e, "first-hour-simulation-differs-from-real-update", bad) ELSE TRUE

Step ==
    /\ i < N
    /\ i' = i + 1
    /\ LET e == Events[i + 1] IN
       CASE e.ev = "Baseline" -> base' = e /\ sim' = <<>> /\ simval' = <<>> /\ isSet' = FALSE
         [] e.ev = "SimCreate" -> CheckCreate(e) /\ sim' = e /\ UNCHANGED <<base, simval>> /\ isSet' = FALSE
         [] e.ev = "SimSet" -> CheckSet(e) /\ simval' = e.val /\ isSet' = TRUE /\ UNCHANGED <<base, sim>>
         \* another simulation made on the same system (accepted or refused) while this one is switched off leaves the baseline as it was
         [] e.ev = "SimOther" -> (IF C05 THEN SameAsBaseline(e, "after-another-simulation-" \o e.outcome) ELSE TRUE)
                                 /\ UNCHANGED <<base, sim, simval, isSet>>
         [] e.ev = "SimReset" -> (IF C05 THEN SameAsBaseline(e, "after-reset") ELSE TRUE) /\ isSet' = FALSE /\ UNCHANGED <<base, sim, simval>>
         [] e.ev = "PlainUpdate" -> CheckPlain(e) /\ (IF e.outcome = "updated" THEN base' = e ELSE UNCHANGED base) /\ UNCHANGED <<sim, simval, isSet>>
         [] e.ev = "SimProbe" -> CheckProbe(e) /\ UNCHANGED <<base, sim, simval, isSet>>
         [] e.ev = "RealUpdate" -> CheckReal(e) /\ UNCHANGED <<base, sim, simval, isSet>>

Init == i = 0 /\ base = <<>> /\ sim = <<>> /\ simval = <<>> /\ isSet = FALSE
Next == Step
Spec == Init /\ [][Next]_vars
AllConsumed == TLCGet("stats").diameter - 1 = N
=============================================================================
