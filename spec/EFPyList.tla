------------------------------ MODULE EFPyList -------------------------------
(***************************************************************************)
(* Python list semantics of every mutating operation of a list-valued link  *)
(* (what C16 means by "behave like Python lists as far as their content is  *)
(* concerned"), including the exceptions Python raises.                     *)
(* An operation is a record [name, x (element), i (0-based index, natural), *)
(* l (sequence), n (natural)].                                              *)
(***************************************************************************)
EXTENDS Naturals, Sequences, FiniteSets, TLC

SeqSet(s) == {s[i] : i \in DOMAIN s}

RECURSIVE Repeat(_, _)
Repeat(s, n) == IF n <= 0 THEN <<>> ELSE s \o Repeat(s, n - 1)
RemoveAt(s, i) == [k \in 1..(Len(s) - 1) |-> IF k < i THEN s[k] ELSE s[k + 1]]
InsertAt(s, i, x) == [k \in 1..(Len(s) + 1) |-> IF k < i THEN s[k] ELSE IF k = i THEN x ELSE s[k - 1]]
FirstIdx(s, x) == CHOOSE i \in DOMAIN s : s[i] = x /\ \A k \in 1..(i - 1) : s[k] # x
(* Python index (0-based, negative allowed) -> 1-based position, 0 if out of range *)
Pos(s, i) == IF i >= 0 /\ i < Len(s) THEN i + 1 ELSE 0
Ok(v) == [ok |-> TRUE, val |-> v, exc |-> "none"]
Err(s, e) == [ok |-> FALSE, val |-> s, exc |-> e]

(* op is a record [name, x (element), i (index, natural), l (sequence), n (natural)] *)
PyOp(s, op) ==
    CASE op.name = "append"  -> Ok(Append(s, op.x))
      [] op.name = "insert"  -> Ok(InsertAt(s, IF op.i > Len(s) THEN Len(s) + 1 ELSE op.i + 1, op.x))
      [] op.name = "extend"  -> Ok(s \o op.l)
      [] op.name = "iadd"    -> Ok(s \o op.l)
      [] op.name = "imul"    -> Ok(Repeat(s, op.n))
      [] op.name = "pop"     -> IF Pos(s, op.i) = 0 THEN Err(s, "IndexError") ELSE Ok(RemoveAt(s, Pos(s, op.i)))
      [] op.name = "poplast" -> IF s = <<>> THEN Err(s, "IndexError") ELSE Ok(RemoveAt(s, Len(s)))
      [] op.name = "delitem" -> IF Pos(s, op.i) = 0 THEN Err(s, "IndexError") ELSE Ok(RemoveAt(s, Pos(s, op.i)))
      [] op.name = "setitem" -> IF Pos(s, op.i) = 0 THEN Err(s, "IndexError")
                                ELSE Ok([s EXCEPT ![Pos(s, op.i)] = op.x])
      [] op.name = "remove"  -> IF op.x \notin SeqSet(s) THEN Err(s, "ValueError")
                                ELSE Ok(RemoveAt(s, FirstIdx(s, op.x)))
      [] op.name = "clear"   -> Ok(<<>>)
      [] op.name = "assign"  -> Ok(op.l)

=============================================================================
