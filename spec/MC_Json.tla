------------------------------- MODULE MC_Json -------------------------------
(* the laws of EFJson over every small state: one scalar, one hourly input of length <= 2 with values in -12..25 (1e-4 units, ties
   excluded), one ordered link list over two names *)
EXTENDS EFJson
VARIABLES s, phase
Vals == {v \in -12..25 : ~IsTie(v)}
States ==
    [scalars : [{"x"} -> {0, 7, 123}],
     hourly : [{"h"} -> {<<>>} \cup {<<a>> : a \in Vals} \cup {<<a, b>> : a \in Vals, b \in Vals}],
     links : [{"l"} -> {<<>>, <<"a">>, <<"a", "b">>, <<"b", "a">>, <<"a", "a">>}]]
Init == s \in States /\ phase = 0
Next == phase = 0 /\ phase' = 1 /\ UNCHANGED s
Spec == Init /\ [][Next]_<<s, phase>>
Rounded == phase = 1 => LoadedIsRounded(s)
Idempotent == phase = 1 => SecondExportEqualsFirst(s)
Exact == phase = 1 => OnLatticeRoundTripsExactly(s)
=============================================================================
