------------------------------ MODULE MC_Update ------------------------------
(***************************************************************************)
(* Exhaustive small-scope check of the recomputation-chain design:          *)
(* every well-formed topology over a small universe is an initial state;    *)
(* one step evaluates EVERY single edit (each input, each link to each      *)
(* other target, each list to each other sequence) and, when Groups = TRUE, *)
(* every two-change grouped update, and records the edits after which some  *)
(* observable slot is left stale.  Since the model's state is the topology  *)
(* alone, "no stale slot after any edit from any topology" extends to all   *)
(* edit histories by induction.                                             *)
(***************************************************************************)
EXTENDS EFCore

CONSTANTS UPs, UJs, StepIds, JobIds, ServerIds, StorageIds, NetIds, CountryIds, DeviceIds,
          MaxList,      \* maximal length of uj_steps / jobs lists
          JFN,          \* UsageJourney lists its patterns' networks as dependents (repaired behaviour)
          CANON,        \* merged chain re-sorted canonically when both parts are present (repaired)
          Groups,       \* also explore two-change grouped updates
          CheckUpdates, \* FALSE: only the creation order is evaluated
          CheckGraph    \* also evaluate GraphFresh (the recorded graph after each update)

VARIABLES topo, phase, bad


SeqsUpTo(X, n) == UNION {[1..k -> X] : k \in 0..n}
Bijections(A, B) == {f \in [A -> B] : \A x, y \in A : x # y => f[x] # f[y]}
Perms(X) == {s \in [1..Cardinality(X) -> X] : \A i, j \in 1..Cardinality(X) : i # j => s[i] # s[j]}

Topologies ==
    [ups : {UPs}, ujs : {UJs}, steps : {StepIds}, jobs : {JobIds}, servers : {ServerIds},
     storages : {StorageIds}, nets : {NetIds}, countries : {CountryIds}, devices : {DeviceIds},
     uj : [UPs -> UJs], net : [UPs -> NetIds], country : [UPs -> CountryIds],
     devs : [UPs -> (SeqsUpTo(DeviceIds, 1) \ {<<>>})],
     stepsOf : [UJs -> SeqsUpTo(StepIds, MaxList)], jobsOf : [StepIds -> SeqsUpTo(JobIds, MaxList)],
     server : [JobIds -> ServerIds], storage : Bijections(ServerIds, StorageIds),
     sysups : Perms(UPs)]

InputAttrs(T, o) ==
    CASE o \in T.steps     -> {"user_time_spent"}
      [] o \in T.ups       -> {"hourly_usage_journey_starts"}
      [] o \in T.countries -> {"average_carbon_intensity", "timezone"}
      [] o \in T.devices   -> {"carbon_footprint_fabrication", "power", "lifespan", "fraction_of_usage_time"}
      [] o \in T.nets      -> {"bandwidth_energy_intensity"}
      [] o \in T.jobs      -> {"data_transferred", "data_stored", "request_duration", "compute_needed", "ram_needed"}
      [] o \in T.servers   -> {"carbon_footprint_fabrication", "power", "lifespan", "idle_power", "ram", "compute",
                               "power_usage_effectiveness", "average_carbon_intensity", "server_utilization_rate",
                               "base_ram_consumption", "base_compute_consumption", "server_type",
                               "fixed_nb_of_instances"}
      [] o \in T.storages  -> {"carbon_footprint_fabrication_per_storage_capacity", "power_per_storage_capacity",
                               "lifespan", "idle_power", "storage_capacity", "data_replication_factor",
                               "data_storage_duration", "base_storage_need", "fixed_nb_of_instances"}
      [] OTHER             -> {}

InputChanges(T) ==
    UNION {{[kind |-> "input", slot |-> S(o, a)] : a \in InputAttrs(T, o)} : o \in AllObjs(T)}

LinkChanges(T) ==
    {[kind |-> "link", obj |-> up, attr |-> "usage_journey", old |-> T.uj[up], new |-> x] :
        up \in T.ups, x \in T.ujs} \cup
    {[kind |-> "link", obj |-> up, attr |-> "network", old |-> T.net[up], new |-> x] : up \in T.ups, x \in T.nets} \cup
    {[kind |-> "link", obj |-> up, attr |-> "country", old |-> T.country[up], new |-> x] :
        up \in T.ups, x \in T.countries} \cup
    {[kind |-> "link", obj |-> j, attr |-> "server", old |-> T.server[j], new |-> x] : j \in T.jobs, x \in T.servers}

ListChanges(T) ==
    {[kind |-> "list", obj |-> uj, attr |-> "uj_steps", old |-> T.stepsOf[uj], new |-> x] :
        uj \in T.ujs, x \in SeqsUpTo(T.steps, MaxList)} \cup
    {[kind |-> "list", obj |-> s, attr |-> "jobs", old |-> T.jobsOf[s], new |-> x] :
        s \in T.steps, x \in SeqsUpTo(T.jobs, MaxList)}

StructChanges(T) == {c \in LinkChanges(T) \cup ListChanges(T) : c.old # c.new}
SingleChanges(T) == InputChanges(T) \cup StructChanges(T)

Target(c) == IF c.kind = "input" THEN <<c.slot[1], c.slot[2]>> ELSE <<c.obj, c.attr>>

(* mixed groups are where the two halves of the chain meet; input+input and struct+struct too *)
GroupChanges(T) ==
    {<<a, b>> : a \in StructChanges(T), b \in InputChanges(T)} \cup
    {<<b, a>> : a \in StructChanges(T), b \in InputChanges(T)} \cup
    {<<a, b>> \in StructChanges(T) \X StructChanges(T) : Target(a) # Target(b)} \cup
    {<<a, b>> \in InputChanges(T) \X InputChanges(T) : Target(a) # Target(b)}

Updates(T) == {<<c>> : c \in SingleChanges(T)} \cup (IF Groups THEN GroupChanges(T) ELSE {})

StaleOf(T, cs) ==
    LET T2 == ApplyAll(T, cs, 1)
    IN  StaleAfter(T, T2, cs, {}, JFN, CANON) \cap Relevant(T2)

DirtyOf(T, cs) ==
    LET T2 == ApplyAll(T, cs, 1)
    IN  DirtyAfter(T, T2, cs, JFN, CANON) \cap Relevant(T2)

VARIABLE created      \* stale slots right after System creation (must be empty)
VARIABLE badTok       \* updates after which a relevant slot still lists a superseded value object among its ancestors
Init == topo \in Topologies /\ phase = "new" /\ bad = {} /\ created = {} /\ badTok = {}
Check ==
    /\ phase = "new"
    /\ phase' = "checked"
    /\ bad' = IF CheckUpdates THEN {cs \in Updates(topo) : StaleOf(topo, cs) # {}} ELSE {}
    /\ created' = StaleAfterCreation(topo, JFN)
    /\ badTok' = IF CheckUpdates /\ CheckGraph THEN {cs \in Updates(topo) : DirtyOf(topo, cs) # {}} ELSE {}
    /\ UNCHANGED topo
Next == Check
vars == <<topo, phase, bad, created, badTok>>
Spec == Init /\ [][Next]_vars

SibOff == FALSE             \* for the configuration line  SiblingClosure <- SibOff  (pre-4d00801 behaviour, sensitivity run)
NoStale == bad = {}
(* ... and the recorded graph is the ideal one again, which is what lets NoStale extend to every history by induction *)
GraphFresh == badTok = {}
(* a freshly created system is a fixed point: nothing is left stale by the creation order *)
FreshAfterCreation == created = {}
(* every update of a freshly created system leaves nothing stale -- including "no update" *)
FreshAtCreation == phase = "new" => bad = {}

Symm == Permutations(UPs) \cup Permutations(UJs) \cup Permutations(StepIds) \cup Permutations(JobIds)
        \cup Permutations(ServerIds) \cup Permutations(StorageIds) \cup Permutations(NetIds)
        \cup Permutations(CountryIds) \cup Permutations(DeviceIds)
=============================================================================
