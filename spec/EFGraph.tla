-------------------------------- MODULE EFGraph --------------------------------
(***************************************************************************)
(* The calculation graph users inspect and export (C08), at the level of    *)
(* value identifiers ("<attribute>-in-<object id>").  A graph G is a record *)
(*   anc  : node -> set of nodes listed as direct ancestors                 *)
(*   chld : node -> set of nodes listed as direct children                  *)
(* over the values currently held by the model (DOMAIN G.anc).              *)
(***************************************************************************)
EXTENDS Naturals, Sequences, FiniteSets, TLC

Nodes(G) == DOMAIN G.anc
(* every dependency is listed on both of its ends *)
Asymmetric(G) ==
    {<<a, c>> \in Nodes(G) \X Nodes(G) : (c \in G.chld[a]) # (a \in G.anc[c])}
(* references to something that is not a value currently held by the model *)
Dangling(G) == {<<n, x>> \in Nodes(G) \X (UNION {G.anc[n] \cup G.chld[n] : n \in Nodes(G)}) :
                   x \in (G.anc[n] \cup G.chld[n]) /\ x \notin Nodes(G)}

RECURSIVE Reach(_, _)
(* nodes reachable from the set X through children *)
Reach(G, X) ==
    LET N == X \cup UNION {G.chld[n] \cap Nodes(G) : n \in X \cap Nodes(G)}
    IN  IF N = X THEN X ELSE Reach(G, N)
Descendants(G, n) == Reach(G, G.chld[n] \cap Nodes(G))
OnCycle(G) == {n \in Nodes(G) : n \in Descendants(G, n)}

(* a recomputation order for input n: every descendant exactly once, after each of its ancestors that is itself a descendant *)
ChainProblems(G, n, chain) ==
    LET D == Descendants(G, n)
        pos(x) == CHOOSE p \in DOMAIN chain : chain[p] = x
        listed == {chain[p] : p \in DOMAIN chain}
        twice == {chain[p] : p \in {q \in DOMAIN chain : \E r \in DOMAIN chain : r # q /\ chain[r] = chain[q]}}
        early == {y \in (D \cap listed) \X (D \cap listed) :
                    y[2] \in G.anc[y[1]] /\ y[1] # y[2] /\ pos(y[1]) < pos(y[2])}
    IN  {<<"listed-twice", x, x>> : x \in twice}
        \cup {<<"descendant-missing", d, d>> : d \in D \ listed}
        \cup {<<"before-its-ancestor", y[1], y[2]>> : y \in early}
=============================================================================
