------------------------------- MODULE EFDecimal -------------------------------
(***************************************************************************)
(* Decimal floating point with 4-digit mantissas on TLC's 32-bit integers:  *)
(* a value is <<m, e>> standing for m x 10^e with |m| < 10^4.  Used where a *)
(* rule of the implementation works on arbitrary floats (builders' derived  *)
(* parameters): TLC evaluates the rule itself, to about 3 significant       *)
(* digits per operation.                                                    *)
(***************************************************************************)
EXTENDS Integers, Sequences, TLC

DAbs(x) == IF x < 0 THEN -x ELSE x
DSign(x) == IF x < 0 THEN -1 ELSE 1
RECURSIVE Pow10(_)
Pow10(n) == IF n <= 0 THEN 1 ELSE 10 * Pow10(n - 1)
(* round-half-up division of a non-negative integer *)
RDiv(a, b) == (2 * a + b) \div (2 * b)
RECURSIVE DNorm(_, _)
DNorm(m, e) == IF DAbs(m) < 10000 THEN <<m, e>> ELSE DNorm(DSign(m) * RDiv(DAbs(m), 10), e + 1)
D(m, e) == DNorm(m, e)
DInt(n) == DNorm(n, 0)
DMul(a, b) == DNorm(a[1] * b[1], a[2] + b[2])
(* a / b: mantissa of a scaled by 10^5 first (|a.m| x 10^5 < 2^31) *)
DDiv(a, b) == DNorm(DSign(a[1]) * DSign(b[1]) * RDiv(DAbs(a[1]) * 100000, DAbs(b[1])), a[2] - b[2] - 5)
(* a + b: the operand with the smaller exponent is rounded to the other's scale when more than 5 digits apart *)
DAdd(a, b) ==
    IF a[1] = 0 THEN b ELSE IF b[1] = 0 THEN a
    ELSE LET hi == IF a[2] >= b[2] THEN a ELSE b
             lo == IF a[2] >= b[2] THEN b ELSE a
             d == hi[2] - lo[2]
         IN  IF d > 5 THEN hi ELSE DNorm(hi[1] * Pow10(d) + lo[1], lo[2])
(* |a - b| <= max(|a|, |b|) / perRel  (perRel = 100: within 1 %) *)
DClose(a, b, perRel) ==
    IF a[1] = 0 /\ b[1] = 0 THEN TRUE
    ELSE LET diff == DAdd(a, <<-b[1], b[2]>>)
             big == IF a[1] = 0 THEN b ELSE IF b[1] = 0 THEN a
                    ELSE IF a[2] > b[2] \/ (a[2] = b[2] /\ DAbs(a[1]) >= DAbs(b[1])) THEN a ELSE b
             nd == DNorm(DAbs(diff[1]) * perRel, diff[2])            \* |diff| x perRel
             nb == DNorm(DAbs(big[1]), big[2])
         IN  \/ nd[1] = 0
             \/ nd[2] < nb[2] /\ (nb[2] - nd[2] > 5 \/ nd[1] <= nb[1] * Pow10(nb[2] - nd[2]))
             \/ nd[2] >= nb[2] /\ nd[2] - nb[2] <= 5 /\ nd[1] * Pow10(nd[2] - nb[2]) <= nb[1]
=============================================================================
